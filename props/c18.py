"""C18 - power-of-two, multiple and bitfield utilities (ext/scalar_integer, ext/vector_integer, gtc/round, gtc/bitfield, gtc/integer, gtx/integer, gtx/bit)."""
from props.common import *
LEVEL = 'proof'
CLAIM = ("isPowerOfTwo, next/prev/ceil/floor/roundPowerOfTwo, isMultiple, next/prev/ceil/floor/roundMultiple (integers: symbolic x AND symbolic m via cvc5 int-blasting; floats: rounding-erased with fmod as "
         "integer-quotient remainder), findNSB, mask, bitfieldFill*, bitfieldRotate*, bitfieldInterleave/Deinterleave (all overloads), gtc log2, gtx pow/sqrt/mod/factorial/nlz and gtx/bit helpers are executed "
         "symbolically from their clang IR at 8/16/32/64 bit and the solver shows the result is the documented integer for every argument in the stated domain.")
BOUNDS = ('values unbounded (full machine width) except: gtx sqrt(x) for x < 2^8 (quick) / 2^10 (thorough) (Newton loop, unwind 12) and for x in the 64-wide bands starting at 2^31, 2^32-64, 65535^2-32 (uint) and 2^31-64, 46340^2-32 (int) (unwind 40), gtx pow exponent <= 8 (unwind 9), factorial n <= 12, highestBitValue loops unwind width+1, findNSB unwind 8; '
          'power-of-two family on x > 0 with representable result (roundPowerOfTwo: the NEAREST power representable, i.e. x < 1.5 * 2^(w-1) resp. 2^(w-2) signed); multiples with m > 0 and representable result; float multiples: rounding-erased, m in a constant set')
OUTSIDE = 'negative arguments of the power-of-two family (no documented meaning); rounding of float multiples; sqrt/pow beyond the stated ranges'
ASSUMPTIONS = ['urem/srem kernels are decided by cvc5 --solve-bv-as-int=sum (z3 bit-blasting does not finish beyond 8 bit)']

U = Unit('c18', includes=['glm/glm.hpp', 'glm/integer.hpp', 'glm/ext/scalar_integer.hpp', 'glm/ext/vector_integer.hpp', 'glm/gtc/round.hpp', 'glm/gtc/bitfield.hpp', 'glm/gtc/integer.hpp', 'glm/gtx/integer.hpp', 'glm/gtx/bit.hpp'])
TYS = ['i8', 'u8', 'i16', 'u16', 'i32', 'u32', 'i64', 'u64']
P2 = ['isPowerOfTwo', 'nextPowerOfTwo', 'prevPowerOfTwo', 'ceilPowerOfTwo', 'floorPowerOfTwo', 'roundPowerOfTwo']
MUL = ['isMultiple', 'nextMultiple', 'prevMultiple', 'ceilMultiple', 'floorMultiple', 'roundMultiple']
for t in TYS:
    c = ITYPES[t]
    for f in P2:
        oc = 'bool' if f == 'isPowerOfTwo' else c
        U.add('%s_%s' % (f, t), [(c, 1)], [(oc, 1)], 'o[0] = glm::%s(a[0]);' % f)
    for f in MUL:
        oc = 'bool' if f == 'isMultiple' else c
        U.add('%s_%s' % (f, t), [(c, 2)], [(oc, 1)], 'o[0] = glm::%s(a[0], a[1]);' % f)
    U.add('findNSB_' + t, [(c, 1), ('int', 1)], [('int', 1)], 'o[0] = glm::findNSB(a[0], b[0]);')
    U.add('mask_' + t, [(c, 1)], [(c, 1)], 'o[0] = glm::mask(a[0]);')
    U.add('rotr_' + t, [(c, 1), ('int', 1)], [(c, 1)], 'o[0] = glm::bitfieldRotateRight(a[0], b[0]);')
    U.add('rotl_' + t, [(c, 1), ('int', 1)], [(c, 1)], 'o[0] = glm::bitfieldRotateLeft(a[0], b[0]);')
    U.add('fillOne_' + t, [(c, 1), ('int', 2)], [(c, 1)], 'o[0] = glm::bitfieldFillOne(a[0], b[0], b[1]);')
    U.add('fillZero_' + t, [(c, 1), ('int', 2)], [(c, 1)], 'o[0] = glm::bitfieldFillZero(a[0], b[0], b[1]);')
    U.add('highestBitValue_' + t, [(c, 1)], [(c, 1)], 'o[0] = glm::highestBitValue(a[0]);')
    U.add('lowestBitValue_' + t, [(c, 1)], [(c, 1)], 'o[0] = glm::lowestBitValue(a[0]);')
for t in ('i32', 'u32', 'u8'):
    c = ITYPES[t]
    for L in (1, 2, 3, 4):
        for f in P2:
            oc = 'bool' if f == 'isPowerOfTwo' else c
            U.add('%s_v%d_%s' % (f, L, t), [(c, L)], [(oc, L)], 'stv(o, glm::%s(ldv<%d,%s>(a)));' % (f, L, c))
        for f in MUL:
            oc = 'bool' if f == 'isMultiple' else c
            U.add('%s_v%d_%s' % (f, L, t), [(c, L), (c, L)], [(oc, L)], 'stv(o, glm::%s(ldv<%d,%s>(a), ldv<%d,%s>(b)));' % (f, L, c, L, c))
        U.add('findNSB_v%d_%s' % (L, t), [(c, L), ('int', L)], [('int', L)], 'stv(o, glm::findNSB(ldv<%d,%s>(a), ldv<%d,int>(b)));' % (L, c, L))
        U.add('rot_v%d_%s' % (L, t), [(c, L), ('int', 1)], [(c, L), (c, L)], 'stv(o, glm::bitfieldRotateRight(ldv<%d,%s>(a), b[0])); stv(o2, glm::bitfieldRotateLeft(ldv<%d,%s>(a), b[0]));' % (L, c, L, c))
        U.add('fill_v%d_%s' % (L, t), [(c, L), ('int', 2)], [(c, L), (c, L)], 'stv(o, glm::bitfieldFillOne(ldv<%d,%s>(a), b[0], b[1])); stv(o2, glm::bitfieldFillZero(ldv<%d,%s>(a), b[0], b[1]));' % (L, c, L, c))
        U.add('mask_v%d_%s' % (L, t), [(c, L)], [(c, L)], 'stv(o, glm::mask(ldv<%d,%s>(a)));' % (L, c))
        if t != 'u8': U.add('log2_v%d_%s' % (L, t), [(c, L)], [(c, L)], 'stv(o, glm::log2(ldv<%d,%s>(a)));' % (L, c))
# interleave overloads: (name, [arg ctype]*n, result ctype)
IL = []
for n, pairs in ((2, (('int8_t', 'int16_t'), ('uint8_t', 'uint16_t'), ('int16_t', 'int32_t'), ('uint16_t', 'uint32_t'), ('int32_t', 'int64_t'), ('uint32_t', 'uint64_t'))),
                 (3, (('int8_t', 'int32_t'), ('uint8_t', 'uint32_t'), ('int16_t', 'int64_t'), ('uint16_t', 'uint64_t'), ('int32_t', 'int64_t'), ('uint32_t', 'uint64_t'))),
                 (4, (('int8_t', 'int32_t'), ('uint8_t', 'uint32_t'), ('int16_t', 'int64_t'), ('uint16_t', 'uint64_t')))):
    for ac, rc in pairs:
        nm = 'il%d_%s' % (n, ac.replace('_t', ''))
        U.add(nm, [(ac, n)], [(rc, 1)], 'o[0] = glm::bitfieldInterleave(%s);' % ', '.join('a[%d]' % k for k in range(n)))
        IL.append((nm, n, ct_bits(ac), ct_bits(rc)))
for ac, rc, vt in (('uint8_t', 'uint16_t', 'glm::u8vec2'), ('uint16_t', 'uint32_t', 'glm::u16vec2'), ('uint32_t', 'uint64_t', 'glm::u32vec2')):
    U.add('ilv_' + ac.replace('_t', ''), [(ac, 2)], [(rc, 1)], 'o[0] = glm::bitfieldInterleave(%s(a[0], a[1]));' % vt)
    U.add('deil_' + rc.replace('_t', ''), [(rc, 1)], [(ac, 2)], 'stv(o, glm::bitfieldDeinterleave(a[0]));')
    U.add('deil_il_' + ac.replace('_t', ''), [(ac, 2)], [(ac, 2)], 'stv(o, glm::bitfieldDeinterleave(glm::bitfieldInterleave(a[0], a[1])));')
U.add('ipow', [('int', 1), ('uint32_t', 1)], [('int', 1)], 'o[0] = glm::pow(a[0], b[0]);')
U.add('upow', [('uint32_t', 2)], [('uint32_t', 1)], 'o[0] = glm::pow(a[0], a[1]);')
U.add('isqrt', [('int', 1)], [('int', 1)], 'o[0] = glm::sqrt(a[0]);')
U.add('usqrt', [('uint32_t', 1)], [('uint32_t', 1)], 'o[0] = glm::sqrt(a[0]);')
U.add('imod', [('int', 2)], [('int', 1)], 'o[0] = glm::mod(a[0], a[1]);')
U.add('umod', [('uint32_t', 2)], [('uint32_t', 1)], 'o[0] = glm::mod(a[0], a[1]);')
U.add('nlz', [('uint32_t', 1)], [('uint32_t', 1)], 'o[0] = glm::nlz(a[0]);')
U.add('ifact', [('int', 1)], [('int', 1)], 'o[0] = glm::factorial(a[0]);')
U.add('ufact64', [('uint64_t', 1)], [('uint64_t', 1)], 'o[0] = glm::factorial(a[0]);')
for ft in ('float', 'double'):
    for f in ('ceilMultiple', 'floorMultiple', 'roundMultiple'):
        U.add('%s_%s' % (f, ft), [(ft, 2)], [(ft, 1)], 'o[0] = glm::%s(a[0], a[1]);' % f)
def units(tier): return [U]

# ---- regions of the known findings (referenced from known_findings.json as @name)
def _rot_region(res, k):
    fn = res.fn
    if len(fn.ins[0:1]) and fn.name.startswith('rot_v'): x = res.ins[0][k]
    else: x = res.ins[0][0]
    W = x.size(); s_ = res.ins[1][0]; sh = z3.ZeroExt(W - 32, s_) if W > 32 else z3.Extract(W - 1, 0, s_)
    d = z3.RotateLeft(x, sh) != z3.RotateRight(x, sh)
    signed = CT[fn.ins[0][0]][0] == 's'
    return z3.Or(x < 0, d) if signed else d
def _round_region(res, k):
    fn = res.fn
    if res.mode == 'real':
        x, m = res.ins[0][0], res.ins[0][1]; r = x - m * z3.ToReal(z3.ToInt(x / m)); return 2 * r > m
    x, m = (res.ins[0][0], res.ins[0][1]) if len(fn.ins) == 1 else (res.ins[0][k], res.ins[1][k])
    W = x.size(); signed = CT[fn.ins[0][0]][0] == 's'
    # x mod m (floor remainder) > m/2, written with W-bit remainders of the operands the code itself divides (cheap for the solver)
    if signed:
        M = z3.SignExt(2, m); rp = z3.SignExt(2, z3.SRem(x, m)); rn = M - 1 + z3.SignExt(2, z3.SRem(x + 1, m))
        r = z3.If(x >= 0, rp, rn)
    else:
        M = z3.ZeroExt(2, m); r = z3.ZeroExt(2, z3.URem(x, m))
    return z3.UGT(r + r, M)
REGIONS = {'rot_differs': _rot_region, 'round_upper_closer': _round_region}

# ------------------------------------------------------------------ specs
def pos(x, sg): return (x > 0) if sg else (x != 0)
def is_pow2(x): return popcount(x, 8) == 1
def job_pow2(t, L=0):
    c = ITYPES[t]; W = width(t); sg = is_signed(t); n = max(L, 1)
    top = 1 << (W - 2 if sg else W - 1)
    sfx = '_%s' % t if L == 0 else '_v%d_%s' % (L, t)
    ule = (lambda a, b: a <= b) if sg else z3.ULE
    ult = (lambda a, b: a < b) if sg else z3.ULT
    def run(S):
        pre_all = lambda i: [pos(x, sg) for x in i[0]]
        pre_up = lambda i: [z3.And(pos(x, sg), ule(x, z3.BitVecVal(top, W))) for x in i[0]]
        S.check_fn(U, 'isPowerOfTwo' + sfx, lambda i, o: [('c%d' % k, (o[0][k] == 1) == is_pow2(i[0][k])) for k in range(n)], pre_all, bounds='all x > 0')
        for f in ('nextPowerOfTwo', 'ceilPowerOfTwo'):
            def spec(i, o):
                g = []
                for k in range(n):
                    x, r = i[0][k], o[0][k]
                    g.append(('c%d' % k, z3.And(is_pow2(r), pos(r, sg), ule(x, r), ult(z3.LShR(r, 1), x))))
                return g
            S.check_fn(U, f + sfx, spec, pre_up, mutant=lambda i, o: [('m', o[0][0] == i[0][0])], bounds='0 < x <= 2^%d (result representable)' % (W - 2 if sg else W - 1))
        for f in ('prevPowerOfTwo', 'floorPowerOfTwo'):
            def spec(i, o):
                g = []
                for k in range(n):
                    x, r = i[0][k], o[0][k]
                    g.append(('c%d' % k, z3.And(is_pow2(r), pos(r, sg), ule(r, x), z3.ULT(z3.ZeroExt(1, x), z3.ZeroExt(1, r) << 1))))
                return g
            S.check_fn(U, f + sfx, spec, pre_all, bounds='all x > 0')
        def spec_round(i, o):
            g = []
            for k in range(n):
                x, r = zx(i[0][k], W + 2), zx(o[0][k], W + 2)
                hi = z3.BitVecVal(1, W + 2) << zx(highest_set(i[0][k], 8), W + 2)      # floor power of two (spec-side, from bit scan)
                lo_d = x - hi; up = hi << 1; up_d = up - x
                g.append(('c%d' % k, z3.If(is_pow2(i[0][k]), r == x, z3.And(z3.Or(r == hi, r == up), z3.If(r == hi, z3.ULE(lo_d, up_d), z3.ULE(up_d, lo_d))))))
            return g
        # domain of roundPowerOfTwo: the NEAREST power of two is representable, i.e. x <= top or x strictly closer to top than to 2*top (x < 1.5*top)
        pre_rnd = lambda i: [z3.And(pos(x, sg), ult(x, z3.BitVecVal(3 * (top >> 1), W))) for x in i[0]]
        S.check_fn(U, 'roundPowerOfTwo' + sfx, spec_round, pre_rnd, bounds='0 < x < 1.5 * 2^%d (the nearest power of two is representable)' % (W - 2 if sg else W - 1))
    return run

def job_mult(t, f, L=0):
    c = ITYPES[t]; W = width(t); sg = is_signed(t); n = max(L, 1)
    sfx = '_%s' % t if L == 0 else '_v%d_%s' % (L, t)
    rem = (lambda a, b: z3.SRem(a, b)) if sg else z3.URem
    MAX = (1 << (W - 1)) - 1 if sg else (1 << W) - 1
    def run(S):
        def xm(i, k): return (i[0][0], i[0][1]) if L == 0 else (i[0][k], i[1][k])
        def pre(i):
            h = []
            for k in range(n):
                x, m = xm(i, k); X = sx(x, W + 2) if sg else zx(x, W + 2); M = sx(m, W + 2) if sg else zx(m, W + 2)
                h += [m > 0 if sg else m != 0]
                if f != 'isMultiple':
                    h += [X + M <= MAX]                       # result (and intermediates) representable
                    if sg: h += [X - M >= -(1 << (W - 1))]
            return h
        def spec(i, o):
            g = []
            for k in range(n):
                x, m = xm(i, k); r = o[0][k]
                X = sx(x, W + 2) if sg else zx(x, W + 2); M = sx(m, W + 2) if sg else zx(m, W + 2)
                if f == 'isMultiple':
                    g.append(('c%d' % k, (r == 1) == (rem(x, m) == 0))); continue
                R = sx(r, W + 2) if sg else zx(r, W + 2)
                mult = rem(r, m) == 0
                if f in ('nextMultiple', 'ceilMultiple'): g.append(('c%d' % k, z3.And(mult, R >= X, R - X < M)))
                elif f in ('prevMultiple', 'floorMultiple'): g.append(('c%d' % k, z3.And(mult, R <= X, X - R < M)))
                else:
                    d = z3.If(R >= X, R - X, X - R)
                    g.append(('multiple%d' % k, mult)); g.append(('c%d' % k, d + d <= M))
            return g
        known = {'roundMultiple': ['KF-C18-roundMultiple-floors']}.get(f, [])
        if L > 0:
            # vector overloads: first show component k is the very term of the scalar overload on (x_k, m_k) (hash-consed, no solver); the scalar obligation then carries the
            # specification.  Only components for which that fails are put to the solver directly.
            try:
                rv_ = sym_call(U, f + sfx); same = True
                for k in range(n):
                    rs = sym_call(U, '%s_%s' % (f, t), ins=[[rv_.ins[0][k], rv_.ins[1][k]]])
                    a_, b_ = rv_.outs[0][k], rs.outs[0][0]
                    if not z3.simplify(a_).eq(z3.simplify(b_)): same = False; break
                if same:
                    for k in range(n):
                        S.rec(name='c18.%s%s.c%d' % (f, sfx, k), kind='spec', functions=[f + sfx], bounds='all x, all m > 0 (%d bit)' % W, solver='identical term to the scalar overload %s_%s (z3 simplifier); specification: c18.%s_%s' % (f, t, f, t),
                              result='unsat', time_s=0.0, status='discharged', mandatory=True)
                    return
            except Unsupported: pass
        S.check_fn(U, f + sfx, spec, pre, solver='portfolio', timeout=S.cap(150, 400), known=known, bounds='all x, all m > 0 with x +- m representable (%d bit)' % W, side=False)
    return run

def nsb_goal(x, nn, r):
    """r is the position of the nn-th (1-based) set bit of x counted from bit 0, or -1 if x has fewer than nn set bits"""
    W = x.size(); rw = zx(r, W) if W >= 32 else z3.Extract(W - 1, 0, r)
    below = x & ((z3.BitVecVal(1, W) << rw) - 1)
    found = z3.And(r >= 0, r < W, z3.Extract(0, 0, z3.LShR(x, rw)) == 1, popcount(below, 32) == nn - 1)
    return z3.If(popcount(x, 32) < nn, r == -1, found)
def job_findnsb(t, L=0):
    c = ITYPES[t]; W = width(t); n = max(L, 1); sfx = '_%s' % t if L == 0 else '_v%d_%s' % (L, t)
    def run(S):
        pre = lambda i: [z3.And(k >= 1, k <= W) for k in i[1]]
        S.check_fn(U, 'findNSB' + sfx, lambda i, o: [('c%d' % k, nsb_goal(i[0][k], i[1][k], o[0][k])) for k in range(n)], pre, unwind=9, bounds='all x, 1 <= n <= %d' % W,
                   timeout=S.cap(200, 400) if W < 64 else 1500)
    return run

def job_bitfield(t):
    c = ITYPES[t]; W = width(t); sg = is_signed(t)
    def run(S):
        def mask_spec(b):
            bb = sx(b, W + 8) if sg else zx(b, W + 8)
            return z3.If(z3.Or(bb >= W, bb < 0), z3.BitVecVal(-1, W), z3.Extract(W - 1, 0, (z3.BitVecVal(1, W + 8) << bb) - 1))
        S.check_fn(U, 'mask_' + t, lambda i, o: [('mask', o[0][0] == mask_spec(i[0][0]))], lambda i: [i[0][0] >= 0] if sg else [], bounds='all non-negative bit counts')
        sh = lambda i: zx(i[1][0], W) if W >= 32 else z3.Extract(W - 1, 0, i[1][0])
        pre_rot = lambda i: [i[1][0] >= 1, i[1][0] <= W - 1]
        S.check_fn(U, 'rotr_' + t, lambda i, o: [('rotate-right', o[0][0] == z3.RotateRight(i[0][0], sh(i)))], pre_rot, known=['KF-C18-rotate-swapped'], bounds='all x, 1 <= shift <= %d' % (W - 1), side=False)
        S.check_fn(U, 'rotl_' + t, lambda i, o: [('rotate-left', o[0][0] == z3.RotateLeft(i[0][0], sh(i)))], pre_rot, known=['KF-C18-rotate-swapped'], bounds='all x, 1 <= shift <= %d' % (W - 1), side=False)
        def fill_spec(v, first, cnt, one):
            outb = []
            for p in range(W):
                inside = z3.And(first <= p, z3.BitVecVal(p, 32) < first + cnt)
                outb.append(z3.If(inside, z3.BitVecVal(1 if one else 0, 1), bit(v, p)))
            outb.reverse(); return z3.Concat(*outb)
        pre_f = lambda i: [i[1][0] >= 0, i[1][1] >= 0, i[1][0] + i[1][1] <= W, i[1][0] <= W, i[1][1] <= W]
        kn = []
        S.check_fn(U, 'fillOne_' + t, lambda i, o: [('fill', o[0][0] == fill_spec(i[0][0], i[1][0], i[1][1], True))], pre_f, known=kn, bounds='all x, 0<=first, 0<=count, first+count<=%d' % W, side=False)
        S.check_fn(U, 'fillZero_' + t, lambda i, o: [('fill', o[0][0] == fill_spec(i[0][0], i[1][0], i[1][1], False))], pre_f, known=kn, bounds='all x, 0<=first, 0<=count, first+count<=%d' % W, side=False)
        S.check_fn(U, 'lowestBitValue_' + t, lambda i, o: [('lowest', o[0][0] == z3.If(i[0][0] == 0, z3.BitVecVal(0, W), z3.BitVecVal(1, W) << zx(lowest_set(i[0][0], 8), W)))], bounds='all x')
        S.check_fn(U, 'highestBitValue_' + t, lambda i, o: [('highest', o[0][0] == z3.If(i[0][0] == 0, z3.BitVecVal(0, W), z3.BitVecVal(1, W) << zx(highest_set(i[0][0], 8), W)))], unwind=W + 1, bounds='all x; loop unwound %d times' % (W + 1))
    return run
def job_bitfield_vec(t, L):
    c = ITYPES[t]; W = width(t); sg = is_signed(t)
    def run(S):
        sh = lambda i: zx(i[1][0], W) if W >= 32 else z3.Extract(W - 1, 0, i[1][0])
        S.check_fn(U, 'rot_v%d_%s' % (L, t), lambda i, o: [('rotate-right%d' % k, o[0][k] == z3.RotateRight(i[0][k], sh(i))) for k in range(L)] + [('rotate-left%d' % k, o[1][k] == z3.RotateLeft(i[0][k], sh(i))) for k in range(L)],
                   lambda i: [i[1][0] >= 1, i[1][0] <= W - 1], known=['KF-C18-rotate-swapped'], side=False, bounds='all x, 1 <= shift <= %d' % (W - 1))
        def mask_spec(b):
            bb = sx(b, W + 8) if sg else zx(b, W + 8)
            return z3.If(z3.Or(bb >= W, bb < 0), z3.BitVecVal(-1, W), z3.Extract(W - 1, 0, (z3.BitVecVal(1, W + 8) << bb) - 1))
        S.check_fn(U, 'mask_v%d_%s' % (L, t), lambda i, o: [('mask%d' % k, o[0][k] == mask_spec(i[0][k])) for k in range(L)], lambda i: [x >= 0 for x in i[0]] if sg else [], bounds='all non-negative bit counts')
        def fill_spec(v, first, cnt, one):
            outb = []
            for p in range(W):
                inside = z3.And(first <= p, z3.BitVecVal(p, 32) < first + cnt)
                outb.append(z3.If(inside, z3.BitVecVal(1 if one else 0, 1), bit(v, p)))
            outb.reverse(); return z3.Concat(*outb)
        pre_f = lambda i: [i[1][0] >= 0, i[1][1] >= 0, i[1][0] + i[1][1] <= W, i[1][0] <= W, i[1][1] <= W]
        S.check_fn(U, 'fill_v%d_%s' % (L, t), lambda i, o: [('fill-one%d' % k, o[0][k] == fill_spec(i[0][k], i[1][0], i[1][1], True)) for k in range(L)] + [('fill-zero%d' % k, o[1][k] == fill_spec(i[0][k], i[1][0], i[1][1], False)) for k in range(L)],
                   pre_f, side=False, bounds='all x, 0<=first, 0<=count, first+count<=%d' % W)
        if t != 'u8':
            S.check_fn(U, 'log2_v%d_%s' % (L, t), lambda i, o: [('log2-%d' % k, o[0][k] == highest_set(i[0][k], W)) for k in range(L)], lambda i: [pos(x, sg) for x in i[0]], bounds='all x > 0')
    return run

def job_interleave(S):
    for nm, n, aw, rw in IL:
        def spec(i, o, n=n, aw=aw, rw=rw):
            g = []
            for k in range(n):
                for b_ in range(aw):
                    p = n * b_ + k
                    if p < rw: g.append(bit(o[0][0], p) == bit(i[0][k], b_))
            used = {n * b_ + k for k in range(n) for b_ in range(aw)}
            for p in range(rw):
                if p not in used: g.append(bit(o[0][0], p) == 0)
            return [('placement', z3.And(*g))]
        kn = []
        S.check_fn(U, nm, spec, known=kn, bounds='all argument values: bit i of argument k at bit %d*i+k' % n)
    for a in ('uint8', 'uint16', 'uint32'):
        aw = int(a[4:])
        S.check_fn(U, 'ilv_' + a, lambda i, o, aw=aw: [('placement', z3.And(*[z3.And(bit(o[0][0], 2 * b_) == bit(i[0][0], b_), bit(o[0][0], 2 * b_ + 1) == bit(i[0][1], b_)) for b_ in range(aw)]))], bounds='all values')
        S.check_fn(U, 'deil_il_' + a, lambda i, o: [('inverse', z3.And(o[0][0] == i[0][0], o[0][1] == i[0][1]))], bounds='all pairs')
        r = 'uint%d' % (2 * aw)
        S.check_fn(U, 'deil_' + r, lambda i, o, aw=aw: [('placement', z3.And(*[z3.And(bit(i[0][0], 2 * b_) == bit(o[0][0], b_), bit(i[0][0], 2 * b_ + 1) == bit(o[0][1], b_)) for b_ in range(aw)]))], bounds='all words')

def job_gtx(S):
    # pow: exponent <= 8
    def powspec(x, y):
        r = z3.BitVecVal(1, 32); acc = []
        res = z3.BitVecVal(1, 32)
        for e in range(8, -1, -1):
            p = z3.BitVecVal(1, 32)
            for _ in range(e): p = p * x
            res = z3.If(y == e, p, res)
        return res
    S.check_fn(U, 'ipow', lambda i, o: [('pow', o[0][0] == powspec(i[0][0], i[1][0]))], lambda i: [z3.ULE(i[1][0], 8)], unwind=9, known=['KF-C18-ipow-zero-exponent'], bounds='exponent <= 8, product modulo 2^32')
    S.check_fn(U, 'upow', lambda i, o: [('pow', o[0][0] == powspec(i[0][0], i[0][1]))], lambda i: [z3.ULE(i[0][1], 8)], unwind=9, bounds='exponent <= 8')
    def md(i, o):
        x, y, r = i[0][0], i[0][1], o[0][0]
        t = z3.SRem(x, y)        # SMT-LIB truncated remainder; floor-mod for y > 0 adds y when it is negative
        return [('floor-mod', r == z3.If(t < 0, t + y, t))]
    S.check_fn(U, 'imod', md, lambda i: [i[0][1] > 0, i[0][1] <= (1 << 30)], solver='portfolio', timeout=S.cap(200, 600), bounds='all x, 0 < y <= 2^30')
    S.check_fn(U, 'umod', lambda i, o: [('mod', o[0][0] == z3.URem(i[0][0], i[0][1]))], lambda i: [i[0][1] != 0], solver='portfolio', timeout=S.cap(200, 600), bounds='all x, y != 0')
    S.check_fn(U, 'nlz', lambda i, o: [('nlz', o[0][0] == 31 - highest_set(i[0][0], 32))], bounds='all x')
    F = [1, 1, 2, 6, 24, 120, 720, 5040, 40320, 362880, 3628800, 39916800, 479001600]
    def fs(i, o, w):
        r = z3.BitVecVal(1, w)
        for k in range(len(F) - 1, -1, -1): r = z3.If(i[0][0] == k, z3.BitVecVal(F[k], w), r)
        return [('factorial', o[0][0] == r)]
    S.check_fn(U, 'ifact', lambda i, o: fs(i, o, 32), lambda i: [i[0][0] >= 0, i[0][0] <= 12], unwind=14, bounds='0 <= n <= 12')
    S.check_fn(U, 'ufact64', lambda i, o: fs(i, o, 64), lambda i: [z3.ULE(i[0][0], 12)], unwind=14, bounds='n <= 12')

def job_float_mult(f, ft):
    """rounding-erased: x real, m a positive constant; fmod(x,m) = x - m*trunc(x/m) modelled with an integer quotient"""
    def run(S):
        for mval in ('1', '3', '1/2', '5/2'):
            def pre(i, mval=mval): return [i[0][0] >= -1000, i[0][0] <= 1000]
            def spec(i, o):
                x, m, r = i[0][0], i[0][1], o[0][0].r
                kq = z3.Int('kq_spec')
                mult = r == z3.ToReal(z3.ToInt(r / m)) * m
                if f == 'ceilMultiple': return [('multiple', RGoal('eq', r, z3.ToReal(z3.ToInt(r / m)) * m)), ('above', RGoal('ge', r, x)), ('nearest', RGoal('lt', r - x, m))]
                if f == 'floorMultiple': return [('multiple', RGoal('eq', r, z3.ToReal(z3.ToInt(r / m)) * m)), ('below', RGoal('le', r, x)), ('nearest', RGoal('lt', x - r, m))]
                return [('multiple', RGoal('eq', r, z3.ToReal(z3.ToInt(r / m)) * m)), ('nearest', RGoal('le', 2 * z3.If(r >= x, r - x, x - r), m))]
            kn = ['KF-C18-roundMultiple-floors-float'] if f == 'roundMultiple' else []
            S.check_fn(U, '%s_%s' % (f, ft), spec, pre, mode='real', known=kn, ins=[[z3.Real('a0'), z3.RealVal(mval)]], name='c18.%s_%s.m=%s' % (f, ft, mval), bounds='rounding-erased; |x| <= 1000; m = %s' % mval, timeout=S.cap(200, 400))
    return run

def job_gtx_sqrt(S):
    def sq(i, o):
        x, r = zx(i[0][0], 64), zx(o[0][0], 64)
        return [('floor-sqrt', z3.And(r * r <= x, (r + 1) * (r + 1) > x))]
    LB = 8 if S.quick else 10       # the fully symbolic low range costs ~100 s per overload at 2^10 (symbolic-by-symbolic division in every Newton step)
    S.check_fn(U, 'usqrt', sq, lambda i: [z3.ULT(i[0][0], 1 << LB)], unwind=12, solver='z3', timeout=S.cap(200, 600), bounds='x < 2^%d' % LB)
    S.check_fn(U, 'isqrt', sq, lambda i: [i[0][0] >= 0, i[0][0] < (1 << LB)], unwind=12, solver='z3', timeout=S.cap(200, 600), bounds='0 <= x < 2^%d' % LB)
    # high argument ranges: bands [base, base + 2^10) with a concrete base (the early Newton steps then fold to constants); bounded claim, bands listed in BOUNDS
    lo = z3.BitVec('lo', 6)
    for nm, sg, bases in (('usqrt', False, (1 << 31, (1 << 32) - 64, 65535 * 65535 - 32)), ('isqrt', True, ((1 << 31) - 64, 46340 * 46340 - 32))):
        for b in bases:
            xin = z3.BitVecVal(b, 32) + z3.ZeroExt(26, lo)
            S.check_fn(U, nm, sq, None, ins=[[xin]], unwind=40, validate=0, witness=False, solver='z3', timeout=S.cap(200, 400), name='c18.%s.band_%#x' % (nm, b), bounds='%#x <= x < %#x' % (b, b + 64))

def jobs(tier):
    q = tier == 'quick'; J = []
    for t in (['i32', 'u32', 'u8', 'i64', 'u16'] if q else TYS):
        J.append(('pow2_' + t, job_pow2(t)))
        if not (q and width(t) == 64): J.append(('findNSB_' + t, job_findnsb(t)))      # 64-bit findNSB needs minutes: thorough tier only
        J.append(('bitfield_' + t, job_bitfield(t)))
    if q: J.append(('pow2_u64', job_pow2('u64')))       # the unsigned 64-bit smear ladder has a stage of its own (>> 32)
    for t in (['i32', 'u32', 'u16', 'u64'] if q else TYS):
        for f in MUL: J.append(('%s_%s' % (f, t), job_mult(t, f)))
    for t in (('u32', 'u8') if q else ('i32', 'u32', 'u8')):
        for L in (((4,) if t == 'u32' else (1, 2, 3)) if q else (1, 2, 3, 4)):      # every vector length: the per-length functors of _vectorize.hpp are hand-written
            J.append(('pow2_v%d_%s' % (L, t), job_pow2(t, L)))
            J.append(('findNSB_v%d_%s' % (L, t), job_findnsb(t, L)))
            J.append(('bitfield_v%d_%s' % (L, t), job_bitfield_vec(t, L)))
            if not q:
                for f in MUL: J.append(('%s_v%d_%s' % (f, L, t), job_mult(t, f, L)))
    J.append(('interleave', job_interleave)); J.append(('gtx_integer', job_gtx)); J.append(('gtx_sqrt', job_gtx_sqrt))
    for ft in (('float',) if q else ('float', 'double')):
        for f in ('ceilMultiple', 'floorMultiple', 'roundMultiple'): J.append(('%s_%s' % (f, ft), job_float_mult(f, ft)))
    return J
