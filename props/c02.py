"""C02 - matrix operators / functions implement column-major linear algebra for all nine shapes
(detail/type_matCxR.inl, detail/func_matrix.inl, gtc/matrix_access.inl, ext/matrix_integer.inl, gtx/matrix_operation.inl,
gtx/matrix_major_storage.inl, gtx/matrix_cross_product.inl)."""
from props.common import *
import functools
LEVEL = 'proof'
CLAIM = ("All 27 mat*mat, 9 mat*vec and 9 vec*mat products, transpose, outerProduct, matrixCompMult, the element-wise + - with matrices and scalars, * / with "
         "scalars on both sides, the compound assignments (+= -= *= /= with scalar / matrix, *= matrix for square shapes), unary + -, pre/post ++ --, the scalar / "
         "component / column-vector constructors, gtc row()/column() getters and setters for every index, the 81 shape-converting constructors, gtx rowMajor*/colMajor*, "
         "matrixCross3/4 and the nine diagonalCxR builders are executed symbolically from their clang IR for every shape; every returned entry is shown equal to a textbook "
         "triple-loop reference written as SMT terms: bit-exact modulo 2^w for integer element types, as a rounding-erased (real) identity for float/double, and IEEE-exact "
         "(bit-precise floating point) for float/double entries that are integers of magnitude <= 2^7.")
BOUNDS = ('integer element types: all values, arithmetic modulo 2^w (int32/uint32 quick; +int8/uint8/int16/uint16/int64/uint64 thorough); divisions: divisor != 0 and no INT_MIN/-1; '
          'float/double: every entry symbolic, rounding erased (each fadd/fsub/fmul/fdiv exact), real divisions under divisor != 0; IEEE-exact clause: entries integer-valued with |x| <= 2^7 '
          '(products, sums, differences; bit-precise float32 and float64 semantics, compiled with -ffp-contract=off); row()/column() for every valid constant index; '
          'qualifiers: defaultp (quick), + packed_mediump, packed_lowp, aligned_highp under GLM_FORCE_ALIGNED_GENTYPES without intrinsics (thorough, products/conversions/transpose)')
OUTSIDE = ('magnitude of the rounding differences for general float/double entries (only the rounding-erased identity and the small-integer exact clause are decided); '
           'IEEE-exact clause for scalar/matrix division; SIMD instruction-set builds (C03); element-type converting constructors mat<C,R,U> -> mat<C,R,T>; out-of-range row()/column() indices (assert)')
ASSUMPTIONS = ['integer overflow in the int32/int64 products wraps modulo 2^w (the property speaks of the mathematical definition; the reference is evaluated modulo 2^w as well)',
               'rounding-erased semantics for float/double obligations named *.real; bit-precise IEEE semantics for obligations named *.exact']

SHAPES = [(c, r) for c in (2, 3, 4) for r in (2, 3, 4)]
TYPES = {'i32': 'int32_t', 'u32': 'uint32_t', 'f32': 'float', 'f64': 'double', 'i8': 'int8_t', 'u8': 'uint8_t', 'i16': 'int16_t', 'u16': 'uint16_t', 'i64': 'int64_t', 'u64': 'uint64_t'}
QUICK_TYPES = ['i32', 'u32', 'f32', 'f64']
def isflt(t): return t[0] == 'f'
INCLUDES = ['glm/glm.hpp', 'glm/ext/matrix_integer.hpp', 'glm/gtc/matrix_integer.hpp', 'glm/gtc/matrix_access.hpp', 'glm/gtx/matrix_major_storage.hpp',
            'glm/gtx/matrix_cross_product.hpp', 'glm/gtx/matrix_operation.hpp']
PRE_T = 'typedef %s T;\n#ifndef QQ\n#define QQ glm::defaultp\n#endif\n'

def M(C, R, p): return 'ldm<%d,%d,T,QQ>(%s)' % (C, R, p)
def V(L, p): return 'ldv<%d,T,QQ>(%s)' % (L, p)

# ------------------------------------------------------------------ element-wise operation tables: (label, C++ block writing N entries at o+OFF, reference)
# references work on flat column-major lists of terms; s = scalar term; one(x) gives the constant 1 of the sort of x
def EW_OPS(C, R):
    sq = C == R
    ops = [
        ('m+m', 'stm(o+%d, A + B);', lambda A, B, s, k: A[k] + B[k]),
        ('m-m', 'stm(o+%d, A - B);', lambda A, B, s, k: A[k] - B[k]),
        ('m+s', 'stm(o+%d, A + s);', lambda A, B, s, k: A[k] + s),
        ('m-s', 'stm(o+%d, A - s);', lambda A, B, s, k: A[k] - s),
        ('m*s', 'stm(o+%d, A * s);', lambda A, B, s, k: A[k] * s),
        ('s*m', 'stm(o+%d, s * A);', lambda A, B, s, k: s * A[k]),
        ('-m', 'stm(o+%d, -A);', lambda A, B, s, k: -A[k]),
        ('+m', 'stm(o+%d, +A);', lambda A, B, s, k: A[k]),
        ('matrixCompMult', 'stm(o+%d, glm::matrixCompMult(A, B));', lambda A, B, s, k: A[k] * B[k]),
        ('m+=m', '{ auto m = A; m += B; stm(o+%d, m); }', lambda A, B, s, k: A[k] + B[k]),
        ('m-=m', '{ auto m = A; m -= B; stm(o+%d, m); }', lambda A, B, s, k: A[k] - B[k]),
        ('m+=s', '{ auto m = A; m += s; stm(o+%d, m); }', lambda A, B, s, k: A[k] + s),
        ('m-=s', '{ auto m = A; m -= s; stm(o+%d, m); }', lambda A, B, s, k: A[k] - s),
        ('m*=s', '{ auto m = A; m *= s; stm(o+%d, m); }', lambda A, B, s, k: A[k] * s),
        ('++m.result', '{ auto m = A; auto r = ++m; stm(o+%d, r); }', lambda A, B, s, k: A[k] + one(A[k])),
        ('++m.object', '{ auto m = A; ++m; stm(o+%d, m); }', lambda A, B, s, k: A[k] + one(A[k])),
        ('--m.result', '{ auto m = A; auto r = --m; stm(o+%d, r); }', lambda A, B, s, k: A[k] - one(A[k])),
        ('--m.object', '{ auto m = A; --m; stm(o+%d, m); }', lambda A, B, s, k: A[k] - one(A[k])),
        ('m++.result', '{ auto m = A; auto r = m++; stm(o+%d, r); }', lambda A, B, s, k: A[k]),
        ('m++.object', '{ auto m = A; m++; stm(o+%d, m); }', lambda A, B, s, k: A[k] + one(A[k])),
        ('m--.result', '{ auto m = A; auto r = m--; stm(o+%d, r); }', lambda A, B, s, k: A[k]),
        ('m--.object', '{ auto m = A; m--; stm(o+%d, m); }', lambda A, B, s, k: A[k] - one(A[k])),
        ('m=m', '{ glm::mat<%d,%d,T,QQ> m(T(7)); m = A; stm(o+%%d, m); }' % (C, R), lambda A, B, s, k: A[k]),
    ]
    if sq:
        ops += [('s+m', 'stm(o+%d, s + A);', lambda A, B, s, k: s + A[k]),
                ('s-m', 'stm(o+%d, s - A);', lambda A, B, s, k: s - A[k]),
                ('m*=m', '{ auto m = A; m *= B; stm(o+%d, m); }', lambda A, B, s, k: flat(mmul(unflat(A, C, R), unflat(B, C, R)))[k])]
    return ops

def one(x): return z3.BitVecVal(1, x.size()) if z3.is_bv(x) else z3.RealVal(1)
def zero(x): return z3.BitVecVal(0, x.size()) if z3.is_bv(x) else z3.RealVal(0)
def unflat(a, C, R): return [[a[c * R + r] for r in range(R)] for c in range(C)]
def flat(m): return [x for col in m for x in col]
def ssum(xs): return functools.reduce(lambda p, q: p + q, xs)
def mmul(A, B):
    """textbook: A has K columns of R rows, B has C columns of K rows; (A*B)[c][r] = sum_k A[k][r]*B[c][k]"""
    K = len(A); R = len(A[0]); C = len(B); assert len(B[0]) == K
    return [[ssum([A[k][r] * B[c][k] for k in range(K)]) for r in range(R)] for c in range(C)]
def mulv(A, v):
    K = len(A); R = len(A[0]); assert len(v) == K
    return [ssum([A[k][r] * v[k] for k in range(K)]) for r in range(R)]
def vmul(v, A):
    K = len(A); R = len(A[0]); assert len(v) == R
    return [ssum([v[r] * A[k][r] for r in range(R)]) for k in range(K)]
def convert(A, C2, R2):
    """overlapping block copied, rest padded with the identity"""
    C = len(A); R = len(A[0]); z = zero(A[0][0]); o = one(A[0][0])
    return [[A[c][r] if (c < C and r < R) else (o if c == r else z) for r in range(R2)] for c in range(C2)]

_IVM = None
def int_vecmat_compiles():
    """vec3*mat3x3 and vec4*mat4x4 are written with glm::dot, whose static_assert rejects integer T in every configuration of the pinned tree
    (ivec3 * imat3x3 does not compile).  Probe the tree so that the two products are checked as soon as they exist."""
    global _IVM
    if _IVM is None:
        import subprocess
        src = '#include <glm/glm.hpp>\n#include <glm/ext/matrix_integer.hpp>\nglm::ivec3 f(glm::ivec3 v, glm::mat<3,3,int,glm::defaultp> m){ return v * m; }\nglm::ivec4 g(glm::ivec4 v, glm::mat<4,4,int,glm::defaultp> m){ return v * m; }\n'
        p = subprocess.run(['clang++-14', '-std=c++17', '-fsyntax-only', '-w', '-I', REPO, '-x', 'c++', '-'], input=src, capture_output=True, text=True)
        _IVM = p.returncode == 0
    return _IVM
def has_vm(t, K, R): return isflt(t) or (K, R) not in ((3, 3), (4, 4)) or int_vecmat_compiles()
def build_unit(t, suffix='', defines=(), only=None):
    ct = TYPES[t]
    U = Unit('c02_%s%s' % (t, suffix), includes=INCLUDES, defines=list(defines), prelude=PRE_T % ct)
    _add = U.add
    U.add = lambda name, *a: _add(name, *a) if (only is None or name in only) else None
    for (K, R) in SHAPES:       # A: K columns, R rows
        body = 'auto A = %s;\n' % M(K, R, 'a')
        body += 'stm(o, A * %s); stm(o2, A * %s); stm(o3, A * %s);\n' % (M(2, K, 'b'), M(3, K, 'c'), M(4, K, 'd'))
        body += 'stv(o4, A * %s);' % V(K, 'e')
        if has_vm(t, K, R): body += ' stv(o4 + %d, %s * A);' % (R, V(R, 'f'))
        else: body += ' for (int k = 0; k < %d; ++k) o4[%d + k] = T(0);' % (K, R)
        U.add('mul_%d%d' % (K, R), [(ct, K * R), (ct, 2 * K), (ct, 3 * K), (ct, 4 * K), (ct, K), (ct, R)], [(ct, 2 * R), (ct, 3 * R), (ct, 4 * R), (ct, R + K)], body)
    for (C, R) in SHAPES:
        N = C * R; ops = EW_OPS(C, R)
        body = 'auto A = %s; auto B = %s; T s = c[0];\n' % (M(C, R, 'a'), M(C, R, 'b'))
        body += '\n'.join(blk % (i * N) for i, (lab, blk, ref) in enumerate(ops))
        U.add('ew_%d%d' % (C, R), [(ct, N), (ct, N), (ct, 1)], [(ct, len(ops) * N)], body)
        U.add('divs_%d%d' % (C, R), [(ct, N), (ct, 1)], [(ct, 2 * N)], 'auto A = %s; T s = b[0]; stm(o, A / s); { auto m = A; m /= s; stm(o+%d, m); }' % (M(C, R, 'a'), N))
        U.add('sdiv_%d%d' % (C, R), [(ct, N), (ct, 1)], [(ct, N)], 'auto A = %s; T s = b[0]; stm(o, s / A);' % M(C, R, 'a'))
        # transpose / outerProduct / constructors / row+column access
        body = 'auto A = %s; auto cv = %s; auto rv = %s;\n' % (M(C, R, 'a'), V(R, 'b'), V(C, 'c'))
        body += 'stm(o, glm::transpose(A)); stm(o2, glm::outerProduct(cv, rv));\n'
        body += 'stm(o3, glm::mat<%d,%d,T,QQ>(b[0]));\n' % (C, R)
        body += 'stm(o3+%d, glm::mat<%d,%d,T,QQ>(%s));\n' % (N, C, R, ', '.join('A[%d]' % c for c in range(C)))
        body += 'stm(o3+%d, glm::mat<%d,%d,T,QQ>(%s));\n' % (2 * N, C, R, ', '.join('a[%d]' % k for k in range(N)))
        off = 0
        for r in range(R): body += 'stv(o4+%d, glm::row(A, %d));\n' % (off, r); off += C
        for c in range(C): body += 'stv(o4+%d, glm::column(A, %d));\n' % (off, c); off += R
        for r in range(R): body += 'stm(o4+%d, glm::row(A, %d, rv));\n' % (off, r); off += N
        for c in range(C): body += 'stm(o4+%d, glm::column(A, %d, cv));\n' % (off, c); off += N
        U.add('tr_%d%d' % (C, R), [(ct, N), (ct, R), (ct, C)], [(ct, N), (ct, N), (ct, 3 * N), (ct, off)], body)
        # the 9 shape conversions from this shape (+ same shape from another qualifier)
        body = 'auto A = %s;\n' % M(C, R, 'a'); off = 0
        for (C2, R2) in SHAPES:
            body += 'stm(o+%d, glm::mat<%d,%d,T,QQ>(A));\n' % (off, C2, R2); off += C2 * R2
        body += 'stm(o+%d, glm::mat<%d,%d,T,QQ>(ldm<%d,%d,T,glm::packed_mediump>(a)));' % (off, C, R, C, R); off += N
        U.add('cv_%d%d' % (C, R), [(ct, N)], [(ct, off)], body)
    for L in (2, 3, 4):
        vs = ', '.join(V(L, 'a+%d' % (L * k)) for k in range(L))
        U.add('major_%d' % L, [(ct, L * L)], [(ct, 4 * L * L)],
              'auto A = %s; stm(o, glm::rowMajor%d(%s)); stm(o+%d, glm::rowMajor%d(A)); stm(o+%d, glm::colMajor%d(%s)); stm(o+%d, glm::colMajor%d(A));' % (
                  M(L, L, 'a'), L, vs, L * L, L, 2 * L * L, L, vs, 3 * L * L, L))
    U.add('cross', [(ct, 3)], [(ct, 9), (ct, 16)], 'stm(o, glm::matrixCross3(%s)); stm(o2, glm::matrixCross4(%s));' % (V(3, 'a'), V(3, 'a')))
    body = ''; off = 0
    for (C, R) in SHAPES:
        body += 'stm(o+%d, glm::diagonal%dx%d(%s));\n' % (off, C, R, V(min(C, R), 'a')); off += C * R
    U.add('diag', [(ct, 4)], [(ct, off)], body)
    return U

UNITS = {t: build_unit(t) for t in TYPES}
QVARS = {'mediump': ('_mediump', ['QQ=glm::packed_mediump']), 'lowp': ('_lowp', ['QQ=glm::packed_lowp']),
         'aligned': ('_aligned', ['GLM_FORCE_ALIGNED_GENTYPES', 'QQ=glm::aligned_highp'])}
QUNITS = {(t, q): build_unit(t, sfx, dfs) for t in ('f32', 'i32') for q, (sfx, dfs) in QVARS.items()}
def tier_types(tier): return QUICK_TYPES if tier == 'quick' else list(TYPES)
def units(tier):
    us = [UNITS[t] for t in tier_types(tier)]
    if tier != 'quick': us += list(QUNITS.values())
    return us

# ------------------------------------------------------------------ generic goal construction
def val(o): return o.r if isinstance(o, RV) else o
def eqg(o, ref):
    if isinstance(o, RV): return REq(o.r, ref)
    return o == ref
def mode_of(t): return 'real' if isflt(t) else 'fp'
def sfx_of(t): return '.real' if isflt(t) else ''
def mkspec(tab):
    """tab(ins, shifted) -> [(label, output array, index, reference term)]; one equality atom per entry"""
    return lambda i, o: [(lab, eqg(o[oi][k], ref)) for (lab, oi, k, ref) in tab(i)]
def mktwin(tab):
    """mutant twin: the first entry is claimed equal to the reference of a neighbouring entry (must be refutable)"""
    return lambda i, o: [(lab, eqg(o[oi][k], ref)) for (lab, oi, k, ref) in tab(i, True)[:1]]

def spec_mul(K, R, vm_ok=True):
    def tab(i, shifted=False):
        A = unflat(i[0], K, R); g = []
        for n, C in enumerate((2, 3, 4)):
            B = unflat(i[1 + n], C, K); ref = flat(mmul(A, B))
            if shifted: ref = ref[1:] + ref[:1]
            for c in range(C):
                for r in range(R):
                    g.append(('mat%dx%d*mat%dx%d[%d][%d]' % (K, R, C, K, c, r), n, c * R + r, ref[c * R + r]))
        mv = mulv(A, i[4]); vm = vmul(i[5], A)
        for r in range(R): g.append(('mat%dx%d*vec%d[%d]' % (K, R, K, r), 3, r, mv[r]))
        if vm_ok:
            for k in range(K): g.append(('vec%d*mat%dx%d[%d]' % (R, K, R, k), 3, R + k, vm[k]))
        return g
    return tab

def spec_ew(C, R):
    N = C * R; ops = EW_OPS(C, R)
    def tab(i, shifted=False):
        A, B, s = i[0], i[1], i[2][0]; g = []
        for n, (lab, blk, ref) in enumerate(ops):
            for k in range(N):
                kk = (k + 1) % N if shifted else k
                g.append(('%s[%d][%d]' % (lab, k // R, k % R), 0, n * N + k, ref(A, B, s, kk)))
        return g
    return tab

def sdivf(t):
    if isflt(t): return lambda x, y: x / y
    if is_signed(t): return lambda x, y: x / y          # bvsdiv: C++ truncating division
    return z3.UDiv
def div_ok(t, x, y):
    """the C++ division x / y is defined"""
    if isflt(t): return [y != 0]
    if is_signed(t) and width(t) >= 32:
        W = width(t); return [y != 0, z3.Not(z3.And(x == z3.BitVecVal(1 << (W - 1), W), y == z3.BitVecVal(-1, W)))]
    return [y != 0]

def spec_tr(C, R):
    N = C * R
    def tab(i, shifted=False):
        A = unflat(i[0], C, R); cv = i[1]; rv = i[2]; g = []
        z = zero(i[0][0])
        for c in range(R):          # transpose: R columns of C rows, T[c][r] = A[r][c]
            for r in range(C): g.append(('transpose[%d][%d]' % (c, r), 0, c * C + r, A[r][c] if not shifted else A[(r + 1) % C][c]))
        for c in range(C):          # outerProduct(c, r)[i][j] = c[j] * r[i]
            for r in range(R): g.append(('outerProduct[%d][%d]' % (c, r), 1, c * R + r, cv[r] * rv[c]))
        for c in range(C):
            for r in range(R):
                k = c * R + r
                g.append(('ctor(scalar)[%d][%d]' % (c, r), 2, k, cv[0] if c == r else z))
                g.append(('ctor(columns)[%d][%d]' % (c, r), 2, N + k, A[c][r]))
                g.append(('ctor(components)[%d][%d]' % (c, r), 2, 2 * N + k, A[c][r]))
        off = 0
        for r in range(R):
            for c in range(C): g.append(('row(m,%d)[%d]' % (r, c), 3, off + c, A[c][r]))
            off += C
        for c in range(C):
            for r in range(R): g.append(('column(m,%d)[%d]' % (c, r), 3, off + r, A[c][r]))
            off += R
        for rr in range(R):
            for c in range(C):
                for r in range(R): g.append(('row(m,%d,x)[%d][%d]' % (rr, c, r), 3, off + c * R + r, rv[c] if r == rr else A[c][r]))
            off += N
        for cc in range(C):
            for c in range(C):
                for r in range(R): g.append(('column(m,%d,x)[%d][%d]' % (cc, c, r), 3, off + c * R + r, cv[r] if c == cc else A[c][r]))
            off += N
        return g
    return tab

def spec_cv(C, R):
    def tab(i, shifted=False):
        A = unflat(i[0], C, R); g = []; off = 0
        for (C2, R2) in SHAPES:
            ref = convert(A, C2, R2)
            for c in range(C2):
                for r in range(R2):
                    g.append(('mat%dx%d(mat%dx%d)[%d][%d]' % (C2, R2, C, R, c, r), 0, off + c * R2 + r, ref[c][r] if not shifted else ref[c][(r + 1) % R2]))
            off += C2 * R2
        for k in range(C * R): g.append(('mat%dx%d(mat%dx%d<mediump>)[%d][%d]' % (C, R, C, R, k // R, k % R), 0, off + k, i[0][k]))
        return g
    return tab

def spec_major(L):
    def tab(i, shifted=False):
        a = i[0]; g = []; n = L * L
        for c in range(L):
            for r in range(L):
                k = c * L + r
                # rowMajor(v_0..v_{L-1}): v_r is row r, i.e. M[c][r] = v_r[c]; vectors are consecutive L-blocks of the input
                g.append(('rowMajor%d(vecs)[%d][%d]' % (L, c, r), 0, k, a[r * L + c] if not shifted else a[c * L + (r + 1) % L]))
                g.append(('rowMajor%d(mat)[%d][%d]' % (L, c, r), 0, n + k, a[r * L + c]))
                g.append(('colMajor%d(vecs)[%d][%d]' % (L, c, r), 0, 2 * n + k, a[k]))
                g.append(('colMajor%d(mat)[%d][%d]' % (L, c, r), 0, 3 * n + k, a[k]))
        return g
    return tab

def spec_cross(i, shifted=False):
    x, y, zc = i[0]; z = zero(x); g = []
    # [x]_x as column-major: M*v = cross(x, v)
    rows = [[z, -zc, y], [zc, z, -x], [-y, x, z]]        # rows[r][c]
    if shifted: rows = [rows[1], rows[2], rows[0]]
    for c in range(3):
        for r in range(3): g.append(('matrixCross3[%d][%d]' % (c, r), 0, c * 3 + r, rows[r][c]))
    for c in range(4):
        for r in range(4): g.append(('matrixCross4[%d][%d]' % (c, r), 1, c * 4 + r, rows[r][c] if (c < 3 and r < 3) else z))
    return g

def spec_diag(i, shifted=False):
    v = i[0]; z = zero(v[0]); g = []; off = 0
    for (C, R) in SHAPES:
        for c in range(C):
            for r in range(R):
                ref = v[c] if (c == r and c < min(C, R)) else z
                if shifted: ref = v[(c + 1) % 2] if c == r else z
                g.append(('diagonal%dx%d[%d][%d]' % (C, R, c, r), 0, off + c * R + r, ref))
        off += C * R
    return g

# ------------------------------------------------------------------ jobs
def fp_validate(S, U, fn, t):
    """float/double: real-mode terms are not compared with native runs, so also push concrete inputs through the fp-mode term"""
    if isflt(t): S.check_fn(U, fn, None, mode='fp', side=False, witness=False, name='%s.%s.fpvalidate' % (U.name, fn))

def job_mul(t, shapes, U=None):
    U = U or UNITS[t]
    def run(S):
        for (K, R) in shapes:
            sp = spec_mul(K, R, has_vm(t, K, R))
            S.check_fn(U, 'mul_%d%d' % (K, R), mkspec(sp), mode=mode_of(t), name='%s.mul_%d%d%s' % (U.name, K, R, sfx_of(t)), mutant=mktwin(sp), timeout=S.cap(30, 90),
                       bounds='all entry values; ' + ('rounding-erased' if isflt(t) else 'modulo 2^%d' % width(t)))
            fp_validate(S, U, 'mul_%d%d' % (K, R), t)
    return run
def job_ew(t, shapes, U=None):
    U = U or UNITS[t]
    def run(S):
        for (C, R) in shapes:
            sp = spec_ew(C, R)
            S.check_fn(U, 'ew_%d%d' % (C, R), mkspec(sp), mode=mode_of(t), name='%s.ew_%d%d%s' % (U.name, C, R, sfx_of(t)), mutant=mktwin(sp), timeout=S.cap(30, 90),
                       bounds='all entry values; ' + ('rounding-erased' if isflt(t) else 'modulo 2^%d' % width(t)))
            fp_validate(S, U, 'ew_%d%d' % (C, R), t)
            N = C * R; dv = sdivf(t)
            def sp_divs(i, shifted=False):
                return [('m/s[%d][%d]' % (k // R, k % R), 0, k, dv(i[0][(k + 1) % N if shifted else k], i[1][0])) for k in range(N)] + \
                       [('m/=s[%d][%d]' % (k // R, k % R), 0, N + k, dv(i[0][k], i[1][0])) for k in range(N)]
            def sp_sdiv(i, shifted=False):
                return [('s/m[%d][%d]' % (k // R, k % R), 0, k, dv(i[1][0], i[0][(k + 1) % N if shifted else k])) for k in range(N)]
            S.check_fn(U, 'divs_%d%d' % (C, R), mkspec(sp_divs), lambda i: [h for x in i[0] for h in div_ok(t, x, i[1][0])], mode=mode_of(t), name='%s.divs_%d%d%s' % (U.name, C, R, sfx_of(t)),
                       mutant=mktwin(sp_divs), timeout=S.cap(60, 180), bounds='scalar != 0' + ('' if isflt(t) else ', no INT_MIN/-1; C++ truncating division'))
            S.check_fn(U, 'sdiv_%d%d' % (C, R), mkspec(sp_sdiv), lambda i: [h for x in i[0] for h in div_ok(t, i[1][0], x)], mode=mode_of(t), name='%s.sdiv_%d%d%s' % (U.name, C, R, sfx_of(t)),
                       mutant=mktwin(sp_sdiv), timeout=S.cap(60, 180), bounds='all entries != 0' + ('' if isflt(t) else ', no INT_MIN/-1; C++ truncating division'))
    return run
def job_tr(t, shapes, U=None):
    U = U or UNITS[t]
    def run(S):
        for (C, R) in shapes:
            sp = spec_tr(C, R)
            S.check_fn(U, 'tr_%d%d' % (C, R), mkspec(sp), mode=mode_of(t), name='%s.tr_%d%d%s' % (U.name, C, R, sfx_of(t)), mutant=mktwin(sp), timeout=S.cap(30, 90), bounds='all entry values, every valid index')
            fp_validate(S, U, 'tr_%d%d' % (C, R), t)
    return run
def job_cv(t, shapes, U=None):
    U = U or UNITS[t]
    def run(S):
        for (C, R) in shapes:
            sp = spec_cv(C, R)
            S.check_fn(U, 'cv_%d%d' % (C, R), mkspec(sp), mode=mode_of(t), name='%s.cv_%d%d%s' % (U.name, C, R, sfx_of(t)), mutant=mktwin(sp), timeout=S.cap(30, 90), bounds='all entry values; all 9 target shapes')
            fp_validate(S, U, 'cv_%d%d' % (C, R), t)
    return run
def job_gtx(t, U=None):
    U = U or UNITS[t]
    def run(S):
        for L in (2, 3, 4):
            sp = spec_major(L)
            S.check_fn(U, 'major_%d' % L, mkspec(sp), mode=mode_of(t), name='%s.major_%d%s' % (U.name, L, sfx_of(t)), mutant=mktwin(sp), timeout=S.cap(30, 90), bounds='all entry values')
        S.check_fn(U, 'cross', mkspec(spec_cross), mode=mode_of(t), name='%s.cross%s' % (U.name, sfx_of(t)), mutant=mktwin(spec_cross), timeout=S.cap(30, 90), bounds='all entry values')
        S.check_fn(U, 'diag', mkspec(spec_diag), mode=mode_of(t), name='%s.diag%s' % (U.name, sfx_of(t)), mutant=mktwin(spec_diag), timeout=S.cap(30, 90), bounds='all entry values')
        for fn in ('major_4', 'cross', 'diag'): fp_validate(S, U, fn, t)
    return run

# ------------------------------------------------------------------ IEEE-exact clause: integer-valued entries |x| <= 2^7, bit-precise floating point
def small_int_inputs(fn, t, tag):
    """per input array: (terms as IEEE bit patterns built by int->fp conversion of 9-bit symbolic integers, the integers sign-extended to 32 bit, hypotheses)"""
    W = 32 if t == 'f32' else 64; srt = FSORT[W]
    ins, ints, hyps = [], [], []
    for ai, (c, n) in enumerate(fn.ins):
        row, irow = [], []
        for k in range(n):
            v = z3.BitVec('%s%s%d' % (tag, 'abcdefgh'[ai], k), 9)
            hyps += [v >= -128, v <= 128]
            row.append(z3.fpToIEEEBV(z3.fpSignedToFP(RNE, v, srt))); irow.append(z3.SignExt(23, v))
        ins.append(row); ints.append(irow)
    return ins, ints, hyps
def job_exact(t, shapes):
    U = UNITS[t]; W = 32 if t == 'f32' else 64; srt = FSORT[W]
    def same(o, iref): return z3.fpEQ(o.fp, z3.fpSignedToFP(RNE, iref, srt))
    def run(S):
        for (K, R) in shapes:
            fn = U.fns['mul_%d%d' % (K, R)]
            ins, ints, hyps = small_int_inputs(fn, t, 'k')
            tab = spec_mul(K, R)
            def spec(i, o, ints=ints, tab=tab):
                # i are float bit patterns (sitofp of the symbolic integers); the exact reference is the integer triple loop on those integers.
                # On native replay i is concrete: recover the integers from the floats.
                if z3.is_bv_value(z3.simplify(i[0][0])):
                    ints = [[z3.simplify(z3.fpToSBV(RTZ, fpof(x), z3.BitVecSort(32))) for x in row] for row in i]
                return [(lab, same(o[oi][k], ref)) for (lab, oi, k, ref) in tab(ints)]
            S.check_fn(U, 'mul_%d%d' % (K, R), spec, lambda i, hyps=hyps: hyps, mode='fp', ins=ins, name='%s.mul_%d%d.exact' % (U.name, K, R), validate=0, side=False,
                       timeout=S.cap(60, 120), bounds='every entry an integer with |x| <= 2^7 (symbolic 9-bit integer converted to %s); bit-precise IEEE arithmetic' % TYPES[t])
    return run

def jobs(tier):
    q = tier == 'quick'; J = []
    for t in tier_types(tier):
        for (K, R) in SHAPES: J.append(('mul_%s_%d%d' % (t, K, R), job_mul(t, [(K, R)])))
        for C in (2, 3, 4):
            J.append(('ew_%s_%dxN' % (t, C), job_ew(t, [(C, r) for r in (2, 3, 4)])))
            J.append(('tr_%s_%dxN' % (t, C), job_tr(t, [(C, r) for r in (2, 3, 4)])))
            J.append(('cv_%s_%dxN' % (t, C), job_cv(t, [(C, r) for r in (2, 3, 4)])))
        J.append(('gtx_%s' % t, job_gtx(t)))
    for t in ('f32', 'f64'):
        for (K, R) in SHAPES:
            J.append(('exact_%s_%d%d' % (t, K, R), job_exact(t, [(K, R)])))
    if not q:
        for (t, qn), U in QUNITS.items():
            J.append(('q_%s_%s_mul' % (qn, t), job_mul(t, SHAPES, U)))
            J.append(('q_%s_%s_tr' % (qn, t), job_tr(t, SHAPES, U)))
            J.append(('q_%s_%s_cv' % (qn, t), job_cv(t, SHAPES, U)))
            J.append(('q_%s_%s_ew' % (qn, t), job_ew(t, [(2, 3), (4, 4)], U)))
    return J
JOB_CAP = {'quick': 600, 'thorough': 2400}
