"""C02 - matrix operators / functions implement column-major linear algebra for all nine shapes
(detail/type_matCxR.inl, detail/func_matrix.inl, gtc/matrix_access.inl, ext/matrix_integer.inl, gtx/matrix_operation.inl,
gtx/matrix_major_storage.inl, gtx/matrix_cross_product.inl)."""
from props.common import *
import functools
from fractions import Fraction
LEVEL = 'proof'
CLAIM = ("All 27 mat*mat, 9 mat*vec and 9 vec*mat products, transpose, outerProduct, matrixCompMult, the element-wise + - with matrices and scalars, * / with "
         "scalars on both sides, the compound assignments (+= -= *= /= with scalar / matrix, *= matrix for square shapes; also with a right-hand side that aliases the assigned matrix: m op= m, and m op= m[c][r] for the first, a middle and the last element), unary + -, pre/post ++ --, the scalar / "
         "component / column-vector constructors, gtc row()/column() getters and setters for every index, the 81 shape-converting constructors, gtx rowMajor*/colMajor*, "
         "matrixCross3/4 and the nine diagonalCxR builders are executed symbolically from their clang IR for every shape; every returned entry is shown equal to a textbook "
         "triple-loop reference written as SMT terms: bit-exact modulo 2^w for integer element types, as a rounding-erased (real) identity for float/double, and IEEE-exact "
         "(bit-precise floating point) for float/double entries that are integers of magnitude <= 2^7 (products, sums, differences, and quotients by / from a scalar whenever the quotient is such an integer - quick tier: |quotient|, |divisor| <= 2^4).")
BOUNDS = ('integer element types: all values, arithmetic modulo 2^w (int32/uint32 quick; +int8/uint8/int16/uint16/int64/uint64 thorough); divisions: divisor != 0 and no INT_MIN/-1; '
          'float/double: every entry symbolic, rounding erased (each fadd/fsub/fmul/fdiv exact), real divisions under divisor != 0; IEEE-exact clause: entries integer-valued with |x| <= 2^7 '
          '(products, sums, differences; bit-precise float32 and float64 semantics, compiled with -ffp-contract=off); row()/column() for every valid constant index; '
          'qualifiers: defaultp (quick), + packed_mediump, packed_lowp for float and int32, aligned_highp for int32 in the GLM_FORCE_INTRINSICS (SSE2) build (thorough: products, conversions, transpose/access, element-wise on 2x3 and 4x4)')
OUTSIDE = ('magnitude of the rounding differences for general float/double entries (only the rounding-erased identity and the small-integer exact clause are decided); '
           'aligned float/double qualifiers and SIMD instruction-set builds (C03); element-type converting constructors mat<C,R,U> -> mat<C,R,T>; out-of-range row()/column() indices (assert)')
ASSUMPTIONS = ['integer overflow in the int32/int64 products wraps modulo 2^w (the property speaks of the mathematical definition; the reference is evaluated modulo 2^w as well)',
               'rounding-erased semantics for float/double obligations named *.real; bit-precise IEEE semantics for obligations named *.exact']

SHAPES = [(c, r) for c in (2, 3, 4) for r in (2, 3, 4)]
TYPES = {'i32': 'int32_t', 'u32': 'uint32_t', 'f32': 'float', 'f64': 'double', 'i8': 'int8_t', 'u8': 'uint8_t', 'i16': 'int16_t', 'u16': 'uint16_t', 'i64': 'int64_t', 'u64': 'uint64_t'}
QUICK_TYPES = ['i32', 'u32', 'f32', 'f64']
def isflt(t): return t[0] == 'f'
INCLUDES = ['glm/glm.hpp', 'glm/ext/matrix_integer.hpp', 'glm/gtc/matrix_integer.hpp', 'glm/gtc/matrix_access.hpp', 'glm/gtx/matrix_major_storage.hpp',
            'glm/gtx/matrix_cross_product.hpp', 'glm/gtx/matrix_operation.hpp']
PRE_T = 'typedef %s T;\n#ifndef QQ\n#define QQ glm::defaultp\n#endif\n'

def M(C, R, p): return 'ldm<%d,%d,T,QQ>(%s)' % (C, R, p)
def V(L, p): return 'ldv<%d,T,QQ>(%s)' % (L, p)

# ------------------------------------------------------------------ element-wise operation tables: (label, C++ block writing N entries at o+OFF, reference)
# references work on flat column-major lists of terms; s = scalar term; one(x) gives the constant 1 of the sort of x
def EW_OPS(C, R):
    sq = C == R
    ops = [
        ('m+m', 'stm(o+%d, A + B);', lambda A, B, s, k: A[k] + B[k]),
        ('m-m', 'stm(o+%d, A - B);', lambda A, B, s, k: A[k] - B[k]),
        ('m+s', 'stm(o+%d, A + s);', lambda A, B, s, k: A[k] + s),
        ('m-s', 'stm(o+%d, A - s);', lambda A, B, s, k: A[k] - s),
        ('m*s', 'stm(o+%d, A * s);', lambda A, B, s, k: A[k] * s),
        ('s*m', 'stm(o+%d, s * A);', lambda A, B, s, k: s * A[k]),
        ('-m', 'stm(o+%d, -A);', lambda A, B, s, k: -A[k]),
        ('+m', 'stm(o+%d, +A);', lambda A, B, s, k: A[k]),
        ('matrixCompMult', 'stm(o+%d, glm::matrixCompMult(A, B));', lambda A, B, s, k: A[k] * B[k]),
        ('m+=m', '{ auto m = A; m += B; stm(o+%d, m); }', lambda A, B, s, k: A[k] + B[k]),
        ('m-=m', '{ auto m = A; m -= B; stm(o+%d, m); }', lambda A, B, s, k: A[k] - B[k]),
        ('m+=s', '{ auto m = A; m += s; stm(o+%d, m); }', lambda A, B, s, k: A[k] + s),
        ('m-=s', '{ auto m = A; m -= s; stm(o+%d, m); }', lambda A, B, s, k: A[k] - s),
        ('m*=s', '{ auto m = A; m *= s; stm(o+%d, m); }', lambda A, B, s, k: A[k] * s),
        ('++m.result', '{ auto m = A; auto r = ++m; stm(o+%d, r); }', lambda A, B, s, k: A[k] + one(A[k])),
        ('++m.object', '{ auto m = A; ++m; stm(o+%d, m); }', lambda A, B, s, k: A[k] + one(A[k])),
        ('--m.result', '{ auto m = A; auto r = --m; stm(o+%d, r); }', lambda A, B, s, k: A[k] - one(A[k])),
        ('--m.object', '{ auto m = A; --m; stm(o+%d, m); }', lambda A, B, s, k: A[k] - one(A[k])),
        ('m++.result', '{ auto m = A; auto r = m++; stm(o+%d, r); }', lambda A, B, s, k: A[k]),
        ('m++.object', '{ auto m = A; m++; stm(o+%d, m); }', lambda A, B, s, k: A[k] + one(A[k])),
        ('m--.result', '{ auto m = A; auto r = m--; stm(o+%d, r); }', lambda A, B, s, k: A[k]),
        ('m--.object', '{ auto m = A; m--; stm(o+%d, m); }', lambda A, B, s, k: A[k] - one(A[k])),
        ('m+=self', '{ auto m = A; m += m; stm(o+%d, m); }', lambda A, B, s, k: A[k] + A[k]),
        ('m-=self', '{ auto m = A; auto const& r = m; m -= r; stm(o+%d, m); }', lambda A, B, s, k: A[k] - A[k]),
        ('m=m', '{ glm::mat<%d,%d,T,QQ> m(T(7)); m = A; stm(o+%%d, m); }' % (C, R), lambda A, B, s, k: A[k]),
    ]
    if sq:
        ops += [('s+m', 'stm(o+%d, s + A);', lambda A, B, s, k: s + A[k]),
                ('s-m', 'stm(o+%d, s - A);', lambda A, B, s, k: s - A[k]),
                ('m*=m', '{ auto m = A; m *= B; stm(o+%d, m); }', lambda A, B, s, k: flat(mmul(unflat(A, C, R), unflat(B, C, R)))[k]),
                ('m*=self', '{ auto m = A; auto const& r = m; m *= r; stm(o+%d, m); }', lambda A, B, s, k: flat(mmul(unflat(A, C, R), unflat(A, C, R)))[k])]        # right-hand side aliases the object
    return ops

SAL_OPS = ['+=', '-=', '*=', '/=']
def SAL_ENTRIES(C, R): return [(0, 0), (1, 1), (C - 1, R - 1)]
def one(x): return z3.BitVecVal(1, x.size()) if z3.is_bv(x) else (z3.IntVal(1) if z3.is_int(x) else z3.RealVal(1))
def zero(x): return z3.BitVecVal(0, x.size()) if z3.is_bv(x) else (z3.IntVal(0) if z3.is_int(x) else z3.RealVal(0))
def unflat(a, C, R): return [[a[c * R + r] for r in range(R)] for c in range(C)]
def flat(m): return [x for col in m for x in col]
def ssum(xs): return functools.reduce(lambda p, q: p + q, xs)
def mmul(A, B):
    """textbook: A has K columns of R rows, B has C columns of K rows; (A*B)[c][r] = sum_k A[k][r]*B[c][k]"""
    K = len(A); R = len(A[0]); C = len(B); assert len(B[0]) == K
    return [[ssum([A[k][r] * B[c][k] for k in range(K)]) for r in range(R)] for c in range(C)]
def mulv(A, v):
    K = len(A); R = len(A[0]); assert len(v) == K
    return [ssum([A[k][r] * v[k] for k in range(K)]) for r in range(R)]
def vmul(v, A):
    K = len(A); R = len(A[0]); assert len(v) == R
    return [ssum([v[r] * A[k][r] for r in range(R)]) for k in range(K)]
def convert(A, C2, R2):
    """overlapping block copied, rest padded with the identity"""
    C = len(A); R = len(A[0]); z = zero(A[0][0]); o = one(A[0][0])
    return [[A[c][r] if (c < C and r < R) else (o if c == r else z) for r in range(R2)] for c in range(C2)]

_IVM = None
def int_vecmat_compiles():
    """vec3*mat3x3 and vec4*mat4x4 are written with glm::dot, whose static_assert rejects integer T in every configuration of the pinned tree
    (ivec3 * imat3x3 does not compile).  Probe the tree so that the two products are checked as soon as they exist."""
    global _IVM
    if _IVM is None:
        import subprocess
        src = '#include <glm/glm.hpp>\n#include <glm/ext/matrix_integer.hpp>\nglm::ivec3 f(glm::ivec3 v, glm::mat<3,3,int,glm::defaultp> m){ return v * m; }\nglm::ivec4 g(glm::ivec4 v, glm::mat<4,4,int,glm::defaultp> m){ return v * m; }\n'
        p = subprocess.run(['clang++-14', '-std=c++17', '-fsyntax-only', '-w', '-I', REPO, '-x', 'c++', '-'], input=src, capture_output=True, text=True)
        _IVM = p.returncode == 0
    return _IVM
def has_vm(t, K, R): return isflt(t) or (K, R) not in ((3, 3), (4, 4)) or int_vecmat_compiles()
def build_unit(t, suffix='', defines=(), only=None, cflags=()):
    ct = TYPES[t]
    U = Unit('c02_%s%s' % (t, suffix), includes=INCLUDES, defines=list(defines), cflags=list(cflags), prelude=PRE_T % ct)
    _add = U.add
    U.add = lambda name, *a: _add(name, *a) if (only is None or name in only) else None
    for (K, R) in SHAPES:       # A: K columns, R rows
        body = 'auto A = %s;\n' % M(K, R, 'a')
        body += 'stm(o, A * %s); stm(o2, A * %s); stm(o3, A * %s);\n' % (M(2, K, 'b'), M(3, K, 'c'), M(4, K, 'd'))
        body += 'stv(o4, A * %s);' % V(K, 'e')
        if has_vm(t, K, R): body += ' stv(o4 + %d, %s * A);' % (R, V(R, 'f'))
        else: body += ' for (int k = 0; k < %d; ++k) o4[%d + k] = T(0);' % (K, R)
        U.add('mul_%d%d' % (K, R), [(ct, K * R), (ct, 2 * K), (ct, 3 * K), (ct, 4 * K), (ct, K), (ct, R)], [(ct, 2 * R), (ct, 3 * R), (ct, 4 * R), (ct, R + K)], body)
    for (C, R) in SHAPES:
        N = C * R; ops = EW_OPS(C, R)
        body = 'auto A = %s; auto B = %s; T s = c[0];\n' % (M(C, R, 'a'), M(C, R, 'b'))
        body += '\n'.join(blk % (i * N) for i, (lab, blk, ref) in enumerate(ops))
        U.add('ew_%d%d' % (C, R), [(ct, N), (ct, N), (ct, 1)], [(ct, len(ops) * N)], body)
        U.add('divs_%d%d' % (C, R), [(ct, N), (ct, 1)], [(ct, 2 * N)], 'auto A = %s; T s = b[0]; stm(o, A / s); { auto m = A; m /= s; stm(o+%d, m); }' % (M(C, R, 'a'), N))
        U.add('sdiv_%d%d' % (C, R), [(ct, N), (ct, 1)], [(ct, N)], 'auto A = %s; T s = b[0]; stm(o, s / A);' % M(C, R, 'a'))
        # scalar compound assignments whose right-hand side is an ELEMENT OF THE ASSIGNED MATRIX (m /= m[0][0]): every entry is combined with the ORIGINAL value of that element
        body = 'auto A = %s;\n' % M(C, R, 'a')
        body += '\n'.join('{ auto m = A; m %s m[%d][%d]; stm(o+%d, m); }' % (op, c_, r_, (io * len(SAL_ENTRIES(C, R)) + ie) * N) for io, op in enumerate(SAL_OPS) for ie, (c_, r_) in enumerate(SAL_ENTRIES(C, R)))
        U.add('sal_%d%d' % (C, R), [(ct, N)], [(ct, len(SAL_OPS) * len(SAL_ENTRIES(C, R)) * N)], body)
        # transpose / outerProduct / constructors / row+column access
        body = 'auto A = %s; auto cv = %s; auto rv = %s;\n' % (M(C, R, 'a'), V(R, 'b'), V(C, 'c'))
        body += 'stm(o, glm::transpose(A)); stm(o2, glm::outerProduct(cv, rv));\n'
        body += 'stm(o3, glm::mat<%d,%d,T,QQ>(b[0]));\n' % (C, R)
        body += 'stm(o3+%d, glm::mat<%d,%d,T,QQ>(%s));\n' % (N, C, R, ', '.join('A[%d]' % c for c in range(C)))
        body += 'stm(o3+%d, glm::mat<%d,%d,T,QQ>(%s));\n' % (2 * N, C, R, ', '.join('a[%d]' % k for k in range(N)))
        off = 0
        for r in range(R): body += 'stv(o4+%d, glm::row(A, %d));\n' % (off, r); off += C
        for c in range(C): body += 'stv(o4+%d, glm::column(A, %d));\n' % (off, c); off += R
        for r in range(R): body += 'stm(o4+%d, glm::row(A, %d, rv));\n' % (off, r); off += N
        for c in range(C): body += 'stm(o4+%d, glm::column(A, %d, cv));\n' % (off, c); off += N
        U.add('tr_%d%d' % (C, R), [(ct, N), (ct, R), (ct, C)], [(ct, N), (ct, N), (ct, 3 * N), (ct, off)], body)
        # the 9 shape conversions from this shape (+ same shape from another qualifier)
        body = 'auto A = %s;\n' % M(C, R, 'a'); off = 0
        for (C2, R2) in SHAPES:
            body += 'stm(o+%d, glm::mat<%d,%d,T,QQ>(A));\n' % (off, C2, R2); off += C2 * R2
        body += 'stm(o+%d, glm::mat<%d,%d,T,QQ>(ldm<%d,%d,T,glm::packed_mediump>(a)));' % (off, C, R, C, R); off += N
        U.add('cv_%d%d' % (C, R), [(ct, N)], [(ct, off)], body)
    for L in (2, 3, 4):
        vs = ', '.join(V(L, 'a+%d' % (L * k)) for k in range(L))
        U.add('major_%d' % L, [(ct, L * L)], [(ct, 4 * L * L)],
              'auto A = %s; stm(o, glm::rowMajor%d(%s)); stm(o+%d, glm::rowMajor%d(A)); stm(o+%d, glm::colMajor%d(%s)); stm(o+%d, glm::colMajor%d(A));' % (
                  M(L, L, 'a'), L, vs, L * L, L, 2 * L * L, L, vs, 3 * L * L, L))
    U.add('cross', [(ct, 3)], [(ct, 9), (ct, 16)], 'stm(o, glm::matrixCross3(%s)); stm(o2, glm::matrixCross4(%s));' % (V(3, 'a'), V(3, 'a')))
    body = ''; off = 0
    for (C, R) in SHAPES:
        body += 'stm(o+%d, glm::diagonal%dx%d(%s));\n' % (off, C, R, V(min(C, R), 'a')); off += C * R
    U.add('diag', [(ct, 4)], [(ct, off)], body)
    return U

UNITS = {t: build_unit(t) for t in TYPES}
# aligned qualifiers only exist in SIMD builds on clang/gcc (GLM_LANG_EXT needs GLM_ARCH_SIMD_BIT): GLM_FORCE_INTRINSICS at the x86-64 baseline (SSE2)
QVARS = {'mediump': ('_mediump', ['QQ=glm::packed_mediump'], []), 'lowp': ('_lowp', ['QQ=glm::packed_lowp'], []),
         'aligned': ('_aligned', ['GLM_FORCE_INTRINSICS', 'GLM_FORCE_ALIGNED_GENTYPES', 'QQ=glm::aligned_highp'], [])}
QUNITS = {(t, q): build_unit(t, sfx, dfs, cflags=cf) for t in ('f32', 'i32') for q, (sfx, dfs, cf) in QVARS.items() if not (t == 'f32' and q == 'aligned')}   # float SIMD paths: C03
def tier_types(tier): return QUICK_TYPES if tier == 'quick' else list(TYPES)
def units(tier):
    us = [UNITS[t] for t in tier_types(tier)]
    if tier != 'quick': us += list(QUNITS.values())
    return us

# ------------------------------------------------------------------ generic goal construction
def val(o): return o.r if isinstance(o, RV) else o
def _tz(t):
    """number of syntactically known trailing zero bits of a simplified bit-vector term"""
    if z3.is_bv_value(t):
        v = t.as_long(); return t.size() if v == 0 else (v & -v).bit_length() - 1
    if z3.is_app(t) and t.decl().kind() == z3.Z3_OP_CONCAT:
        n = 0
        for c in reversed(t.children()):
            k = _tz(c); n += k
            if k < c.size(): break
        return n
    return 0
_DB = {}
def demand_mul(t):
    """demanded-bits rewriting of extract(h, l, x * y): only the low h+1 bits of the factors matter and known trailing zeros of a factor shift the product
    (clang evaluates one lane of a <4 x i8> multiply on the packed 32-bit registers).  Every step is an identity of modular arithmetic."""
    k = t.get_id()
    if k in _DB: return _DB[k][1]
    r = t
    if z3.is_app(t) and t.num_args():
        ch = [demand_mul(c) for c in t.children()]
        if t.decl().kind() == z3.Z3_OP_EXTRACT and z3.is_app(ch[0]) and ch[0].decl().kind() == z3.Z3_OP_BMUL and ch[0].num_args() == 2:
            h, l = t.params(); x, y = ch[0].arg(0), ch[0].arg(1)
            if h + 1 < x.size(): x = z3.simplify(z3.Extract(h, 0, x)); y = z3.simplify(z3.Extract(h, 0, y))
            for _ in range(2):
                kz = _tz(x)
                if 0 < kz <= l and kz < x.size():
                    x = z3.simplify(z3.Extract(x.size() - 1, kz, x)); y = z3.simplify(z3.Extract(y.size() - 1 - kz, 0, y)); h -= kz; l -= kz
                    if h + 1 < x.size(): x = z3.simplify(z3.Extract(h, 0, x)); y = z3.simplify(z3.Extract(h, 0, y))
                x, y = y, x
            r = z3.simplify(z3.Extract(h, l, x * y))
        elif any(not c.eq(o_) for c, o_ in zip(ch, t.children())): r = t.decl()(*ch)
    _DB[k] = (t, r); return r
def eqg(o, ref):
    if isinstance(o, RV): return REq(o.r, ref)
    if z3.is_bv(o) and o.size() <= 16:
        try: o = demand_mul(z3.simplify(o))
        except z3.Z3Exception: pass
    return o == ref
def mode_of(t): return 'real' if isflt(t) else 'fp'
def sfx_of(t): return '.real' if isflt(t) else ''
def mkspec(tab):
    """tab(ins, shifted) -> [(label, output array, index, reference term)]; one equality atom per entry"""
    return lambda i, o: [(lab, eqg(o[oi][k], ref)) for (lab, oi, k, ref) in tab(i)]
def mktwin(tab):
    """mutant twin: the first entry is claimed equal to the reference of a neighbouring entry (must be refutable)"""
    return lambda i, o: [(lab, eqg(o[oi][k], ref)) for (lab, oi, k, ref) in tab(i, True)[:1]]

def spec_mul(K, R, vm_ok=True):
    def tab(i, shifted=False):
        A = unflat(i[0], K, R); g = []
        for n, C in enumerate((2, 3, 4)):
            B = unflat(i[1 + n], C, K); ref = flat(mmul(A, B))
            if shifted: ref = ref[1:] + ref[:1]
            for c in range(C):
                for r in range(R):
                    g.append(('mat%dx%d*mat%dx%d[%d][%d]' % (K, R, C, K, c, r), n, c * R + r, ref[c * R + r]))
        mv = mulv(A, i[4]); vm = vmul(i[5], A)
        for r in range(R): g.append(('mat%dx%d*vec%d[%d]' % (K, R, K, r), 3, r, mv[r]))
        if vm_ok:
            for k in range(K): g.append(('vec%d*mat%dx%d[%d]' % (R, K, R, k), 3, R + k, vm[k]))
        return g
    return tab

def spec_ew(C, R):
    N = C * R; ops = EW_OPS(C, R)
    def tab(i, shifted=False):
        A, B, s = i[0], i[1], i[2][0]; g = []
        for n, (lab, blk, ref) in enumerate(ops):
            for k in range(N):
                kk = (k + 1) % N if shifted else k
                g.append(('%s[%d][%d]' % (lab, k // R, k % R), 0, n * N + k, ref(A, B, s, kk)))
        return g
    return tab

def sdivf(t):
    if isflt(t): return lambda x, y: x / y
    if is_signed(t): return lambda x, y: x / y          # bvsdiv: C++ truncating division
    return z3.UDiv
def div_ok(t, x, y):
    """the C++ division x / y is defined"""
    if isflt(t): return [y != 0]
    if is_signed(t) and width(t) >= 32:
        W = width(t); return [y != 0, z3.Not(z3.And(x == z3.BitVecVal(1 << (W - 1), W), y == z3.BitVecVal(-1, W)))]
    return [y != 0]

def spec_tr(C, R):
    N = C * R
    def tab(i, shifted=False):
        A = unflat(i[0], C, R); cv = i[1]; rv = i[2]; g = []
        z = zero(i[0][0])
        for c in range(R):          # transpose: R columns of C rows, T[c][r] = A[r][c]
            for r in range(C): g.append(('transpose[%d][%d]' % (c, r), 0, c * C + r, A[r][c] if not shifted else A[(r + 1) % C][c]))
        for c in range(C):          # outerProduct(c, r)[i][j] = c[j] * r[i]
            for r in range(R): g.append(('outerProduct[%d][%d]' % (c, r), 1, c * R + r, cv[r] * rv[c]))
        for c in range(C):
            for r in range(R):
                k = c * R + r
                g.append(('ctor(scalar)[%d][%d]' % (c, r), 2, k, cv[0] if c == r else z))
                g.append(('ctor(columns)[%d][%d]' % (c, r), 2, N + k, A[c][r]))
                g.append(('ctor(components)[%d][%d]' % (c, r), 2, 2 * N + k, A[c][r]))
        off = 0
        for r in range(R):
            for c in range(C): g.append(('row(m,%d)[%d]' % (r, c), 3, off + c, A[c][r]))
            off += C
        for c in range(C):
            for r in range(R): g.append(('column(m,%d)[%d]' % (c, r), 3, off + r, A[c][r]))
            off += R
        for rr in range(R):
            for c in range(C):
                for r in range(R): g.append(('row(m,%d,x)[%d][%d]' % (rr, c, r), 3, off + c * R + r, rv[c] if r == rr else A[c][r]))
            off += N
        for cc in range(C):
            for c in range(C):
                for r in range(R): g.append(('column(m,%d,x)[%d][%d]' % (cc, c, r), 3, off + c * R + r, cv[r] if c == cc else A[c][r]))
            off += N
        return g
    return tab

def spec_cv(C, R):
    def tab(i, shifted=False):
        A = unflat(i[0], C, R); g = []; off = 0
        for (C2, R2) in SHAPES:
            ref = convert(A, C2, R2)
            for c in range(C2):
                for r in range(R2):
                    g.append(('mat%dx%d(mat%dx%d)[%d][%d]' % (C2, R2, C, R, c, r), 0, off + c * R2 + r, ref[c][r] if not shifted else ref[c][(r + 1) % R2]))
            off += C2 * R2
        for k in range(C * R): g.append(('mat%dx%d(mat%dx%d<mediump>)[%d][%d]' % (C, R, C, R, k // R, k % R), 0, off + k, i[0][k]))
        return g
    return tab

def spec_major(L):
    def tab(i, shifted=False):
        a = i[0]; g = []; n = L * L
        for c in range(L):
            for r in range(L):
                k = c * L + r
                # rowMajor(v_0..v_{L-1}): v_r is row r, i.e. M[c][r] = v_r[c]; vectors are consecutive L-blocks of the input
                g.append(('rowMajor%d(vecs)[%d][%d]' % (L, c, r), 0, k, a[r * L + c] if not shifted else a[c * L + (r + 1) % L]))
                g.append(('rowMajor%d(mat)[%d][%d]' % (L, c, r), 0, n + k, a[r * L + c]))
                g.append(('colMajor%d(vecs)[%d][%d]' % (L, c, r), 0, 2 * n + k, a[k]))
                g.append(('colMajor%d(mat)[%d][%d]' % (L, c, r), 0, 3 * n + k, a[k]))
        return g
    return tab

def spec_cross(i, shifted=False):
    x, y, zc = i[0]; z = zero(x); g = []
    # [x]_x as column-major: M*v = cross(x, v)
    rows = [[z, -zc, y], [zc, z, -x], [-y, x, z]]        # rows[r][c]
    if shifted: rows = [rows[1], rows[2], rows[0]]
    for c in range(3):
        for r in range(3): g.append(('matrixCross3[%d][%d]' % (c, r), 0, c * 3 + r, rows[r][c]))
    for c in range(4):
        for r in range(4): g.append(('matrixCross4[%d][%d]' % (c, r), 1, c * 4 + r, rows[r][c] if (c < 3 and r < 3) else z))
    return g

def spec_diag(i, shifted=False):
    v = i[0]; z = zero(v[0]); g = []; off = 0
    for (C, R) in SHAPES:
        for c in range(C):
            for r in range(R):
                ref = v[c] if (c == r and c < min(C, R)) else z
                if shifted: ref = v[(c + 1) % 2] if c == r else z
                g.append(('diagonal%dx%d[%d][%d]' % (C, R, c, r), 0, off + c * R + r, ref))
        off += C * R
    return g

# ------------------------------------------------------------------ jobs
def fp_validate(S, U, fn, t):
    """float/double: real-mode terms are not compared with native runs, so also push concrete inputs through the fp-mode term"""
    if isflt(t): S.check_fn(U, fn, None, mode='fp', side=False, witness=False, name='%s.%s.fpvalidate' % (U.name, fn))

def job_mul(t, shapes, U=None):
    U = U or UNITS[t]
    def run(S):
        for (K, R) in shapes:
            sp = spec_mul(K, R, has_vm(t, K, R))
            S.check_fn(U, 'mul_%d%d' % (K, R), mkspec(sp), mode=mode_of(t), name='%s.mul_%d%d%s' % (U.name, K, R, sfx_of(t)), mutant=mktwin(sp), timeout=S.cap(30, 90), solver='portfolio' if t in ('i8', 'u8') else 'z3',      # 8-bit vec4 operands are packed into one i32 by clang (splat = multiply by 0x01010101): cvc5 int-blasting untangles that
                      
                       bounds='all entry values; ' + ('rounding-erased' if isflt(t) else 'modulo 2^%d' % width(t)))
            fp_validate(S, U, 'mul_%d%d' % (K, R), t)
    return run
def job_ew(t, shapes, U=None):
    U = U or UNITS[t]
    def run(S):
        for (C, R) in shapes:
            sp = spec_ew(C, R)
            S.check_fn(U, 'ew_%d%d' % (C, R), mkspec(sp), mode=mode_of(t), name='%s.ew_%d%d%s' % (U.name, C, R, sfx_of(t)), mutant=mktwin(sp), timeout=S.cap(30, 90),
                       bounds='all entry values; ' + ('rounding-erased' if isflt(t) else 'modulo 2^%d' % width(t)))
            fp_validate(S, U, 'ew_%d%d' % (C, R), t)
            N = C * R; dv = sdivf(t)
            def sp_divs(i, shifted=False):
                return [('m/s[%d][%d]' % (k // R, k % R), 0, k, dv(i[0][(k + 1) % N if shifted else k], i[1][0])) for k in range(N)] + \
                       [('m/=s[%d][%d]' % (k // R, k % R), 0, N + k, dv(i[0][k], i[1][0])) for k in range(N)]
            def sp_sdiv(i, shifted=False):
                return [('s/m[%d][%d]' % (k // R, k % R), 0, k, dv(i[1][0], i[0][(k + 1) % N if shifted else k])) for k in range(N)]
            S.check_fn(U, 'divs_%d%d' % (C, R), mkspec(sp_divs), lambda i: [h for x in i[0] for h in div_ok(t, x, i[1][0])], mode=mode_of(t), name='%s.divs_%d%d%s' % (U.name, C, R, sfx_of(t)),
                       mutant=mktwin(sp_divs), timeout=S.cap(60, 180), bounds='scalar != 0' + ('' if isflt(t) else ', no INT_MIN/-1; C++ truncating division'))
            S.check_fn(U, 'sdiv_%d%d' % (C, R), mkspec(sp_sdiv), lambda i: [h for x in i[0] for h in div_ok(t, i[1][0], x)], mode=mode_of(t), name='%s.sdiv_%d%d%s' % (U.name, C, R, sfx_of(t)),
                       mutant=mktwin(sp_sdiv), timeout=S.cap(60, 180), bounds='all entries != 0' + ('' if isflt(t) else ', no INT_MIN/-1; C++ truncating division'))
    return run
def job_sal(t, shapes, U=None):
    U = U or UNITS[t]
    def run(S):
        for (C, R) in shapes:
            N = C * R; dv = sdivf(t); ents = SAL_ENTRIES(C, R)
            fs = {'+=': lambda x, y: x + y, '-=': lambda x, y: x - y, '*=': lambda x, y: x * y, '/=': dv}
            def tab(i, shifted=False):
                g = []
                for io, op in enumerate(SAL_OPS):
                    for ie, (c_, r_) in enumerate(ents):
                        e = i[0][c_ * R + r_]
                        for k in range(N):
                            g.append(('m%sm[%d][%d].[%d][%d]' % (op, c_, r_, k // R, k % R), 0, (io * len(ents) + ie) * N + k, fs[op](i[0][(k + 1) % N if shifted else k], e)))
                return g
            pre = lambda i: [h for (c_, r_) in ents for x in i[0] for h in div_ok(t, x, i[0][c_ * R + r_])]
            S.check_fn(U, 'sal_%d%d' % (C, R), mkspec(tab), pre, mode=mode_of(t), name='%s.sal_%d%d%s' % (U.name, C, R, sfx_of(t)), mutant=mktwin(tab), timeout=S.cap(60, 180),
                       bounds='all entry values with the three aliased elements != 0' + ('' if isflt(t) else ' (no INT_MIN/-1)') + '; right-hand side is m[0][0], m[1][1] or the last element of the assigned matrix')
            fp_validate(S, U, 'sal_%d%d' % (C, R), t)
    return run
def job_tr(t, shapes, U=None):
    U = U or UNITS[t]
    def run(S):
        for (C, R) in shapes:
            sp = spec_tr(C, R)
            S.check_fn(U, 'tr_%d%d' % (C, R), mkspec(sp), mode=mode_of(t), name='%s.tr_%d%d%s' % (U.name, C, R, sfx_of(t)), mutant=mktwin(sp), timeout=S.cap(30, 90), bounds='all entry values, every valid index')
            fp_validate(S, U, 'tr_%d%d' % (C, R), t)
    return run
def job_cv(t, shapes, U=None):
    U = U or UNITS[t]
    def run(S):
        for (C, R) in shapes:
            sp = spec_cv(C, R)
            kn = ['KF-C02-mat4x4-from-mat4x2-%d%d' % cr for cr in ((2, 0), (2, 1), (3, 0), (3, 1))] if (C, R) == (4, 2) else []
            S.check_fn(U, 'cv_%d%d' % (C, R), mkspec(sp), mode=mode_of(t), name='%s.cv_%d%d%s' % (U.name, C, R, sfx_of(t)), mutant=mktwin(sp), known=kn, timeout=S.cap(30, 90), bounds='all entry values; all 9 target shapes')
            fp_validate(S, U, 'cv_%d%d' % (C, R), t)
    return run
def job_gtx(t, U=None):
    U = U or UNITS[t]
    def run(S):
        for L in (2, 3, 4):
            sp = spec_major(L)
            S.check_fn(U, 'major_%d' % L, mkspec(sp), mode=mode_of(t), name='%s.major_%d%s' % (U.name, L, sfx_of(t)), mutant=mktwin(sp), timeout=S.cap(30, 90), bounds='all entry values')
        S.check_fn(U, 'cross', mkspec(spec_cross), mode=mode_of(t), name='%s.cross%s' % (U.name, sfx_of(t)), mutant=mktwin(spec_cross), timeout=S.cap(30, 90), bounds='all entry values')
        S.check_fn(U, 'diag', mkspec(spec_diag), mode=mode_of(t), name='%s.diag%s' % (U.name, sfx_of(t)), mutant=mktwin(spec_diag), timeout=S.cap(30, 90), bounds='all entry values')
        for fn in ('major_4', 'cross', 'diag'): fp_validate(S, U, fn, t)
    return run

# ------------------------------------------------------------------ IEEE-exact clause: integer-valued entries |x| <= 2^7, bit-precise floating point
# A direct bit-precise query "fp result == sitofp(integer triple loop)" does not finish (one float32 product of two 9-bit integers: 30 s; two products and
# a sum: > 120 s).  The clause is therefore decided compositionally:
#  (1) structure: the S-fp output term of the real code is walked; it may only consist of fp.add/fp.sub/fp.mul (roundNearestTiesToEven, in the element
#      precision), fp.neg / sign-bit flips, integer-valued literals and the input entries.  Anything else (fdiv, fptrunc, fma, rcp, libm call) -> not established.
#  (2) the walk builds the same expression over mathematical integers (z3 Int) with the entries replaced by symbolic integers |k| <= 2^7; the solver proves
#      that EVERY intermediate node is an integer of magnitude < 2^24 (also for double, where 2^53 would do), i.e. exactly representable, and
#  (3) that the integer expression equals the textbook triple-loop reference.
#  (4) IEEE-754 correct rounding returns the exact result whenever it is representable; the instances used here (product of two integers <= 2^7, sum and
#      difference of integers <= 2^17) are themselves proved from the SMT-LIB FloatingPoint semantics by the solver in the jobs ieee_lemma_* .
# Hence by induction over the term every intermediate IEEE value is the integer of (2) and the returned float equals the definition exactly.
class Structure(Exception): pass
def _is_rne(t): return t.decl().kind() == z3.Z3_OP_FPA_RM_NEAREST_TIES_TO_EVEN
def int_mirror(fpterm, leaves, W, nodes, cache):
    """fp term -> z3 Int term; appends every arithmetic node's integer mirror to nodes"""
    def fp(t):
        key = ('f', t.get_id())
        if key in cache: return cache[key]
        k = t.decl().kind()
        if k in (z3.Z3_OP_FPA_ADD, z3.Z3_OP_FPA_SUB, z3.Z3_OP_FPA_MUL):
            if not _is_rne(t.arg(0)): raise Structure('rounding mode ' + t.arg(0).sexpr())
            if t.sort().ebits() + t.sort().sbits() != W: raise Structure('precision %s' % t.sort())
            x, y = fp(t.arg(1)), fp(t.arg(2))
            r = x + y if k == z3.Z3_OP_FPA_ADD else (x - y if k == z3.Z3_OP_FPA_SUB else x * y)
            nodes.append(r)
        elif k == z3.Z3_OP_FPA_NEG: r = -fp(t.arg(0))
        elif k == z3.Z3_OP_FPA_TO_FP and t.num_args() == 1 and z3.is_bv(t.arg(0)):
            if t.sort().ebits() + t.sort().sbits() != W: raise Structure('precision %s' % t.sort())
            r = bits(t.arg(0))
        elif z3.is_fp_value(t):
            if t.isNaN() or t.isInf(): raise Structure('literal ' + t.sexpr())
            v = z3.simplify(z3.fpToReal(t)); f = Fraction(v.numerator_as_long(), v.denominator_as_long())
            if f.denominator != 1: raise Structure('non-integer literal %s' % f)
            r = z3.IntVal(int(f))
        else: raise Structure('operation ' + t.decl().name())
        cache[key] = r; return r
    def bits(b):
        key = ('b', b.get_id())
        if key in cache: return cache[key]
        k = b.decl().kind()
        if b.get_id() in leaves: r = leaves[b.get_id()]
        elif k == z3.Z3_OP_FPA_TO_IEEE_BV: r = fp(b.arg(0))
        elif k == z3.Z3_OP_BXOR and b.num_args() == 2 and z3.is_bv_value(b.arg(1)) and b.arg(1).as_long() == 1 << (W - 1): r = -bits(b.arg(0))
        elif k == z3.Z3_OP_BXOR and b.num_args() == 2 and z3.is_bv_value(b.arg(0)) and b.arg(0).as_long() == 1 << (W - 1): r = -bits(b.arg(1))
        elif z3.is_bv_value(b): r = fp(z3.simplify(z3.fpBVToFP(b, FSORT[W])))
        else: raise Structure('bit-level operation ' + b.decl().name())
        cache[key] = r; return r
    return fp(fpterm)

def exact_clause(S, U, fname, tab, t, label_filter=None):
    W = 32 if t == 'f32' else 64
    name = '%s.%s.exact' % (U.name, fname); fn = U.fns[fname]
    res = sym_call(U, fname, mode='fp')
    ints = [[z3.Int('k%s%d' % ('abcdefgh'[a], k)) for k in range(n)] for a, (c, n) in enumerate(fn.ins)]
    hyps = [h for row in ints for v in row for h in (v >= -128, v <= 128)]
    leaves = {x.get_id(): ints[a][k] for a, row in enumerate(res.ins) for k, x in enumerate(row)}
    cache = {}; B = 1 << 24
    fnlist = ['w_%s -> %s' % (fname, fn.body.strip().replace('\n', ' ')[:160])]
    binfo = 'entries integer-valued, |x| <= 2^7; bit-precise %s term of the compiled code; ll=%s' % (TYPES[t], U.ll_sha())
    S.prove(name + '.witness', z3.BoolVal(False), hyps, timeout=20, kind='witness', functions=fnlist, bounds=binfo, expect='sat', mandatory=False)
    allv = [v for row in ints for v in row]
    def mkreplay(oi, k, ref):
        def replay(m):
            iv = [[m.eval(v, model_completion=True).as_long() for v in row] for row in ints]
            fb = [[float_to_bits(float(x), W) for x in row] for row in iv]
            sub = [(v, z3.IntVal(x)) for row, xr in zip(ints, iv) for v, x in zip(row, xr)]
            want = z3.simplify(z3.substitute(ref, *sub)).as_long()
            info = {'unit': U.name, 'fn': fname, 'inputs': [[hex(b) for b in row] for row in fb], 'expected_integer': want, 'pin_name': name}
            bad = False
            for cxx in ('g++', 'clang++-14'):
                got = bits_to_float(U.call_native(fname, fb, cxx=cxx)[oi][k], W); info['native_' + cxx] = got
                if got != float(want): bad = True
            return ('reproduced' if bad else 'not-reproduced'), info
        return replay
    for (lab, oi, k, ref) in tab(ints):
        if label_filter and not label_filter(lab): continue
        nodes = []
        try:
            m = int_mirror(res.outs[oi][k].fp, leaves, W, nodes, cache)
        except Structure as e:
            S.rec(name='%s.%s.structure' % (name, lab), kind='structure', result='unknown', status='inconclusive', note=str(e), mandatory=True, functions=fnlist, bounds=binfo)
            S.inconclusive.append('%s.%s [exact clause not established: %s appears in the float term]' % (name, lab, e)); continue
        if nodes:
            S.prove('%s.%s.intermediates-representable' % (name, lab), z3.And(*[z3.And(n < B, n > -B) for n in nodes]) if len(nodes) > 1 else z3.And(nodes[0] < B, nodes[0] > -B),
                    hyps, timeout=S.cap(30, 90), kind='spec', functions=fnlist, bounds=binfo + '; %d fadd/fsub/fmul nodes' % len(nodes))
        S.prove('%s.%s.value' % (name, lab), m == ref, hyps, timeout=S.cap(30, 90), kind='spec', functions=fnlist, bounds=binfo, replay=mkreplay(oi, k, ref), vars_=allv)

def job_exact(t, fnames):
    U = UNITS[t]
    def run(S):
        for f in fnames:
            kind, sh = f.split('_'); C, R = int(sh[0]), int(sh[1])
            tab = spec_mul(C, R) if kind == 'mul' else spec_ew(C, R)
            exact_clause(S, U, f, tab, t)
        # the fp-mode term used above is the one compared with native runs
        for f in fnames: S.check_fn(U, f, None, mode='fp', side=False, witness=False, name='%s.%s.fpvalidate' % (U.name, f))
    return run

def job_divexact(t):
    """matrix / scalar, matrix /= scalar, scalar / matrix on float/double: whenever the exact quotient is representable (dividend = q * divisor for integers
    |q|, |divisor| <= 2^7) every returned entry is that quotient exactly.  Decided in two steps: (i) the compiled entry is the very term fp.div(RNE, x, s)
    of the inputs (syntactic, after z3.simplify) and (ii) the IEEE lemma 'fp.div(q*s, s) == q' for all such integers; when (i) fails the claim is put to the
    solver directly on the compiled term (bit-precise, integer-valued inputs), and a counterexample is replayed natively."""
    W = 32 if t == 'f32' else 64; srt = FSORT[W]; U = UNITS[t]
    def run(S):
        q, d = z3.BitVec('q', 9), z3.BitVec('d', 9); LIM = 16 if S.quick else 128       # the divider circuit is expensive to bit-blast: 2^4 quick (2-12 s), 2^7 thorough (70-80 s)
        hy = [q >= -LIM, q <= LIM, d >= -LIM, d <= LIM, d != 0]
        Q = z3.fpSignedToFP(RNE, q, srt); D = z3.fpSignedToFP(RNE, d, srt); P = z3.fpSignedToFP(RNE, z3.SignExt(9, q) * z3.SignExt(9, d), srt)
        S.prove('c02.ieee_lemma.div-exact.%s' % t, z3.fpEQ(z3.fpDiv(RNE, P, D), Q), hy, timeout=S.cap(120, 400), kind='lemma', functions=['fp.div %s' % TYPES[t]], bounds='all integers |q|, |d| <= %d, d != 0: fp.div(q*d, d) == q' % LIM)
        S.prove('c02.ieee_lemma.div-exact-rev.%s' % t, z3.fpEQ(z3.fpDiv(RNE, P, Q), D), hy + [q != 0], timeout=S.cap(120, 400), kind='lemma', functions=['fp.div %s' % TYPES[t]], bounds='all integers 0 < |q|, |d| <= %d: fp.div(q*d, q) == d' % LIM)
        for (C, R) in SHAPES:
            N = C * R
            for fname, nout, mk in (('divs_%d%d' % (C, R), 2 * N, lambda A, s, k: z3.fpDiv(RNE, fpof(A[k % N]), fpof(s))), ('sdiv_%d%d' % (C, R), N, lambda A, s, k: z3.fpDiv(RNE, fpof(s), fpof(A[k])))):
                res = sym_call(U, fname, mode='fp'); A, s_ = res.ins[0], res.ins[1][0]
                fnlist = ['w_%s -> %s' % (fname, U.fns[fname].body.strip().replace('\n', ' ')[:160])]
                for k in range(nout):
                    lab = ('m/s' if k < N else 'm/=s') if fname.startswith('divs') else 's/m'
                    oname = '%s.%s.exact-quotient.%s[%d][%d]' % (U.name, fname, lab, (k % N) // R, (k % N) % R)
                    binfo = 'dividend = q * divisor, integers |q|, |divisor| <= %d, divisor != 0; ll=%s' % (LIM, U.ll_sha())
                    if z3.simplify(res.outs[0][k].fp).eq(z3.simplify(mk(A, s_, k))):
                        S.rec(name=oname, kind='spec', functions=fnlist, bounds=binfo, solver='identical term fp.div(x, s) (z3 simplifier) + c02.ieee_lemma.div-exact', result='unsat', time_s=0.0, status='discharged', mandatory=True)
                        continue
                    # direct query on the compiled term
                    sub = []
                    x = z3.fpToIEEEBV(P)
                    if fname.startswith('divs'):
                        sub = [(a_, x) for a_ in A] + [(s_, z3.fpToIEEEBV(D))]; want = Q
                    else:
                        sub = [(a_, z3.fpToIEEEBV(Q)) for a_ in A] + [(s_, x)]; want = D
                    term = z3.substitute(res.outs[0][k].fp, *sub)
                    def replay(m, fname=fname, k=k):
                        qv = m.eval(q, model_completion=True).as_signed_long(); dv = m.eval(d, model_completion=True).as_signed_long()
                        if fname.startswith('divs'): av, sv, w_ = float(qv * dv), float(dv), float(qv)
                        else: av, sv, w_ = float(qv), float(qv * dv), float(dv)
                        vals = [[float_to_bits(av, W)] * N, [float_to_bits(sv, W)]]
                        info = {'unit': U.name, 'fn': fname, 'inputs': [[hex(v) for v in r] for r in vals], 'expected': w_}
                        bad = False
                        for cxx in ('g++', 'clang++-14'):
                            got = bits_to_float(U.call_native(fname, vals, cxx=cxx)[0][k], W); info['native_' + cxx] = got
                            if got != w_: bad = True
                        return ('reproduced' if bad else 'not-reproduced'), info
                    S.prove(oname, z3.fpEQ(term, want), hy + ([q != 0] if not fname.startswith('divs') else []) + res.axioms, timeout=S.cap(60, 200), kind='spec', functions=fnlist, bounds=binfo, replay=replay, vars_=[q, d])
    return run

def job_ieee_lemma(t, op):
    """IEEE correct rounding returns representable results exactly - the instances used by the exact clause, from the SMT-LIB FloatingPoint semantics"""
    W = 32 if t == 'f32' else 64; srt = FSORT[W]
    def run(S):
        if op == 'mul':
            i, j = z3.BitVec('i', 8), z3.BitVec('j', 8); hy = [z3.ULE(i, 128), z3.ULE(j, 128)]
            x, y = z3.fpUnsignedToFP(RNE, i, srt), z3.fpUnsignedToFP(RNE, j, srt)
            # signs: fp.mul is sign-symmetric by definition (sign = xor of signs, magnitude from magnitudes); proved on magnitudes
            goal = z3.fpEQ(z3.fpMul(RNE, x, y), z3.fpUnsignedToFP(RNE, z3.ZeroExt(16, i) * z3.ZeroExt(16, j), srt)); bd = 'all integers 0 <= i, j <= 2^7 (magnitudes)'
        else:
            i, j = z3.BitVec('i', 19), z3.BitVec('j', 19); lim = 1 << 17; hy = [i >= -lim, i <= lim, j >= -lim, j <= lim]
            x, y = z3.fpSignedToFP(RNE, i, srt), z3.fpSignedToFP(RNE, j, srt)
            e = z3.SignExt(2, i) + z3.SignExt(2, j) if op == 'add' else z3.SignExt(2, i) - z3.SignExt(2, j)
            goal = z3.fpEQ((z3.fpAdd if op == 'add' else z3.fpSub)(RNE, x, y), z3.fpSignedToFP(RNE, e, srt)); bd = 'all integers |i|, |j| <= 2^17'
        S.prove('c02.ieee_lemma.%s.%s' % (op, t), goal, hy, timeout=S.cap(280, 1500), kind='lemma', functions=['fp.%s %s' % (op, TYPES[t])], bounds=bd, mandatory=not S.quick)
    return run

def jobs(tier):
    q = tier == 'quick'; J = []
    for t in tier_types(tier):
        for (K, R) in SHAPES: J.append(('mul_%s_%d%d' % (t, K, R), job_mul(t, [(K, R)])))
        for C in (2, 3, 4):
            J.append(('ew_%s_%dxN' % (t, C), job_ew(t, [(C, r) for r in (2, 3, 4)])))
            J.append(('tr_%s_%dxN' % (t, C), job_tr(t, [(C, r) for r in (2, 3, 4)])))
            J.append(('sal_%s_%dxN' % (t, C), job_sal(t, [(C, r) for r in (2, 3, 4)])))
            J.append(('cv_%s_%dxN' % (t, C), job_cv(t, [(C, r) for r in (2, 3, 4)])))
        J.append(('gtx_%s' % t, job_gtx(t)))
    for t in ('f32', 'f64'):
        for C in (2, 3, 4):
            J.append(('exact_%s_mul_%dxN' % (t, C), job_exact(t, ['mul_%d%d' % (C, r) for r in (2, 3, 4)])))
            J.append(('exact_%s_ew_%dxN' % (t, C), job_exact(t, ['ew_%d%d' % (C, r) for r in (2, 3, 4)])))
        for op in ('mul', 'add', 'sub'): J.append(('ieee_lemma_%s_%s' % (op, t), job_ieee_lemma(t, op)))
        J.append(('divexact_' + t, job_divexact(t)))
    if not q:
        for (t, qn), U in QUNITS.items():
            J.append(('q_%s_%s_mul' % (qn, t), job_mul(t, SHAPES, U)))
            J.append(('q_%s_%s_tr' % (qn, t), job_tr(t, SHAPES, U)))
            J.append(('q_%s_%s_cv' % (qn, t), job_cv(t, SHAPES, U)))
            J.append(('q_%s_%s_ew' % (qn, t), job_ew(t, [(2, 3), (4, 4)], U)))
    return J
JOB_CAP = {'quick': 600, 'thorough': 2400}
