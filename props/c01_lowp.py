"""C01, lowp clause - accuracy of GLM's deliberate fast approximation glm::inversesqrt(vec<L,float,lowp>)  (relative error below 2^-8).

Code: /repo/glm/detail/func_exponential.inl, compute_inversesqrt<L, float, lowp, Aligned>:
    xhalf = x*0.5f;  i = 0x5f375a86 - (bits(x) >> 1);  y0 = float(i);  Y = y0*(1.5f - xhalf*y0*y0)

Claim decided here (every component k of every length L = 1..4): for EVERY positive normal float x (bits 0x00800000 .. 0x7f7fffff, i.e.
2^-126 <= x < 2^128) the returned float Y is finite, positive and (1-2^-8)^2 < Y^2*x < (1+2^-8)^2, which is |Y*sqrt(x) - 1| < 2^-8.

A monolithic bit-precise query does not finish (measured: > 280 s in z3 and cvc5; neither does "Y(4x) == Y(x)/2", two multipliers on shared
significands).  The verdict is therefore composed from small solver obligations on the term that engine/irsym.py produces from the clang IR
of the real code (sym_call, mode 'fp').  The FP term is walked generically (fp.mul / fp.add / fp.sub over bit-cast leaves and constants,
any operand order); nothing about the code's shape or its constants is assumed - the magic constant is read off the leaf term and every use of
it is a proved lemma.  Chain (u = 2^-24, x = val(a), a = E*2^23 + M the input bits, leaf y0 = val(leafbits)):

 FIELDS   (z3, bit-vectors, all a in range)   sign(leaf)=0, 1 <= ey <= 254, and with p = E&1, q = E>>1, r = p*2^22 + (M>>1), b = [r > Mc]:
          ey = Ec - q - b,  my = Mc + b*2^23 - r,  2*ey + E - 381 = 2*Ec - 381 + p - 2*b         (Ec, Mc: fields of C = leaf term at a = 0)
 DECODE   (trusted: IEEE-754 binary32 encoding)  val = 2^(e-127)*(1+m/2^23) for 1 <= e <= 254, val = bits*2^-149 for e <= 1.  With FIELDS:
          z := y0^2 * x = 2^(2*Ec-381+p-2b) * (1+my/2^23)^2 * (1+M/2^23)   - the exponent of x cancels, every binade is covered at once.
 ZRANGE   (z3 nlsat, reals M, mt=(M>>1) in [M/2-1/2, M/2]; four cases (p,b) that cover everything)   0.9003 <= z <= 1.1035
 HALF     (z3, bit-vectors)  the node fp.mul(0.5, x):  E >= 2 -> bits = a - 2^23 (exact halving);  E = 1 -> |2*bits - a| <= 1 (subnormal result,
          absolute error <= 2^-150 <= 2^-23 * x/2)                                         => xhalf = (x/2)(1+d0), |d0| <= 2^-23
 RANGE    (cvc5, z3 as fallback; bit-precise IEEE on the real term, one atom each)  every other operation node has constant sign and biased exponent in [2, 254]; for add/sub
          nodes additionally |exponent difference of the operands| <= 28 (exact result fits binary64).  Modular: a node whose exponent varies by at most 2 over a
          fixed list of concrete inputs (evaluated on the term; this only PROPOSES the interval) is proved to stay in exactly that interval for all inputs, and the
          nodes above it are proved with that node replaced by an arbitrary float of the interval (here: xhalf*y0*y0 in [0.25,1) => 1.5 - t in [0.5,2) => Y normal)
 STDMODEL (trusted: IEEE-754 correct rounding = SMT-LIB FloatingPoint semantics of fp.mul/fp.add/fp.sub under RNE)  fl(r) = RNE(r) for the exact
          real r; supported by solver lemmas ROUND (every binary64 r with 2^-126 <= |r| <= 2^127: |binary32(r) - r| <= 2^-24 |r|, the subtraction being
          exact) and EXACT64 (product of any two binary32 numbers / difference with exponent gap <= 28 is exact in binary64).
          With RANGE: val(node) = (val(l) op val(r)) * (1+d), |d| <= 2^-24.
 HOM      (z3, polynomial identity, no hypotheses)  Yabs(X, Y0, d) = Y0 * Yabs(X*Y0^2, 1, d)   for the abstraction Yabs of the walked term
 MAINZ    (z3 nlsat; reals z, d0..)  0.9003 <= z <= 1.1035 and the d-bounds  =>  Yabs(z,1,d) > 0 and (1-2^-8)^2 < z*Yabs(z,1,d)^2 < (1+2^-8)^2
 COMPOSE  (z3 nlsat)  Y = y0*A, z = y0^2*x, y0 > 0, A > 0, cl < z*A^2 < ch  =>  Y > 0 and cl < Y^2*x < ch.

When a lemma fails, the counterexample of the abstraction is lifted to a window of bit patterns and a bit-precise query with the EXACT specification
(Y^2*x evaluated without rounding in a wider FP sort) is asked there; only a solver model that reproduces natively (g++ and clang++) is a VIOLATION,
anything else is INCONCLUSIVE.  thorough additionally adds mutant twins and re-proves the claim for x in [1,4) fully bit-precisely (no STDMODEL, no DECODE beyond the monotone order of positive floats): biased exponent 127/128
with the top 8 (lower bound; 512 sub-intervals) resp. top 7 (upper bound; 256 sub-intervals) mantissa bits fixed - the index runs over all values, so the union is
syntactically all of [1,4) - each with a constant bound  Y >= L_j  resp.  0 < Y <= H_j  where L_j^2*min(x) > (1-2^-8)^2 and H_j^2*max(x) < (1+2^-8)^2 are asserted in
exact rational arithmetic (cvc5 first, z3 as fallback; a spurious model halves the interval, from depth 3 on with the exact specification).
"""
from props.common import *
from fractions import Fraction as F
import math

LEVEL = 'proof'
CLAIM = ("lowp fast approximation glm::inversesqrt(vec<L,float,lowp>), L = 1..4, every component: for every positive normal float x the result Y is finite, positive and "
         "(1-2^-8)^2 < Y^2*x < (1+2^-8)^2 (relative error of Y against 1/sqrt(x) below 2^-8).  Decided by a chain of solver obligations on the symbolic-execution term of the real code: "
         "bit-vector lemmas on the magic-constant leaf (fields of y0 as integer functions of the fields of x, all exponents at once), exact-halving lemma, bit-precise IEEE range lemmas "
         "per operation node, polynomial identity (scale invariance), and nlsat bounds over y0^2*x and the rounding errors of the standard model; thorough adds a fully bit-precise proof "
         "for x in [1,4) over complete partitions into 512 (lower bound) and 256 (upper bound) sub-intervals.")
BOUNDS = ("x: every positive normal binary32 value, bits 0x00800000..0x7f7fffff (2^-126 <= x < 2^128), fully symbolic (biased exponent and mantissa); vector lengths 1-4, every component; "
          "no unwinding (straight-line code).  quick and thorough: the whole lemma chain for every component; thorough: additionally mutant twins and the bit-precise interval proof on [1,4) for the vec1 instance.")
OUTSIDE = ("x = 0, subnormal x (the approximation is NOT accurate there: e.g. x = 2^-127 (bits 0x00400000) gives Y*sqrt(x)-1 = -3.8e-2, x = 0 gives the finite value 1.98e19), negative x, inf, NaN; "
           "aligned (SIMD) lowp qualifiers; the trusted IEEE facts listed in ASSUMPTIONS (binary32 encoding; correct rounding of fp.mul/fp.sub) are not re-derived bit-precisely for all binades - "
           "only for x in [1,4) in the thorough tier.")
ASSUMPTIONS = ['IEEE-754 binary32 encoding: a pattern with biased exponent 1 <= e <= 254 and mantissa m denotes 2^(e-127)*(1+m/2^23), with e <= 1 it denotes bits*2^-149 (used to turn the proved integer relations between fields into real relations; 2^(a+b) = 2^a*2^b)',
               'standard model of IEEE-754 round-to-nearest-even arithmetic: fp.mul/fp.add/fp.sub return RNE(exact real result); for a result with biased exponent in [2,254] this gives fl = exact*(1+d), |d| <= 2^-24.  '
               'The rounding part (|binary32(r)-r| <= 2^-24|r| for every binary64 r in the normal range) and the exactness of the products/differences in binary64 are discharged by the solver (lemmas stdmodel.*); '
               'that fp.mul on binary32 equals rounding the exact product is the definition of the operation (SMT-LIB FloatingPoint theory) and is not re-proved',
               'the real relaxation of the integer fields (M real in [0, 2^23-1], M>>1 real in [M/2-1/2, M/2]) over-approximates the integers']
EXPLANATION = ('lowp inversesqrt accuracy: lemma chain FIELDS (bit-vectors) -> DECODE (trusted IEEE encoding) -> ZRANGE (nlsat) ; HALF, RANGE (bit-precise IEEE) -> STDMODEL (trusted correct rounding, '
               'supported by stdmodel.* lemmas) ; HOM (identity) ; MAINZ (nlsat) ; COMPOSE (nlsat); see the module docstring of props/c01_lowp.py')
TRUSTED = ['props/c01_lowp.py: generic walker from the z3 FP term to its standard-model real abstraction (fp.mul/fp.add/fp.sub/constants/bit-cast leaves, RNE only; anything else is reported as not encoded)']

U = Unit('c01lowp', includes=['glm/glm.hpp'])
LENGTHS = (1, 2, 3, 4)
for _L in LENGTHS:
    U.add('isq%d' % _L, [('float', _L)], [('float', _L)], 'stv(o, glm::inversesqrt(ldv<%d,float,glm::lowp>(a)));' % _L)
def units(tier): return [U]

# ------------------------------------------------------------------------------------------------ constants of the specification
CL2 = F(255, 256) ** 2; CH2 = F(257, 256) ** 2          # (1 -+ 2^-8)^2
ZLO = F(9003, 10000); ZHI = F(11035, 10000)              # y0*sqrt(x) in [0.94884, 1.05048]: what the Newton step tolerates, 1 - 1.5 t^2 - 0.5 t^3 > 1 - 2^-8 + 2e-5 (rounding: < 1e-6)
UR = F(1, 1 << 24)                                       # unit round-off binary32
XMIN, XMAX = 0x00800000, 0x7f7fffff
KF_SUBNORMAL = 'KF-C01-LOWP-INVERSESQRT-SUBNORMAL'       # if a known finding with this id is registered, job lowp.isq.subnormal probes it (solver + native replay)
def RVf(fr): return z3.RealVal(str(F(fr)))
def pre_x(a): return [z3.UGE(a, bv(XMIN, 32)), z3.ULE(a, bv(XMAX, 32))]
FNTXT = lambda L: ['w_isq%d -> stv(o, glm::inversesqrt(ldv<%d,float,glm::lowp>(a)))' % (L, L)]

# ------------------------------------------------------------------------------------------------ generic walker: FP term -> standard-model abstraction
class Node:
    def __init__(s, term, d, kind, op, l, r): s.term = term; s.d = d; s.kind = kind; s.op = op; s.l = l; s.r = r
class Absn:
    """Yabs: real term over X (value of the input), Y0 (value of the second leaf), d0.. (relative rounding errors, one per operation node)"""
    def __init__(s, a):
        s.a = a; s.X = z3.Real('X'); s.Y0 = z3.Real('Y0'); s.nodes = []; s.leaf = None; s.uses_x = False; s.memo = {}; s.keymemo = {}
    def ds(s): return [n.d for n in s.nodes]
    def dbounds(s):
        out = []
        for n in s.nodes:
            ub = 2 * UR if n.kind == 'half' else UR
            out += [n.d >= -RVf(ub), n.d <= RVf(ub)]
        return out
def _num(t):
    if t.isNaN() or t.isInf(): raise Unsupported('NaN/inf constant in the term')
    return z3val_to_fraction(z3.simplify(z3.fpToReal(t)))
def _vars(t, acc=None, seen=None):
    acc = set() if acc is None else acc; seen = set() if seen is None else seen
    st = [t]
    while st:
        x = st.pop()
        if x.get_id() in seen: continue
        seen.add(x.get_id())
        if z3.is_const(x) and x.decl().kind() == z3.Z3_OP_UNINTERPRETED: acc.add(x.decl().name())
        st.extend(x.children())
    return acc
def walk(t, A):
    """returns (real term, canonical key modulo commutativity)"""
    if t.get_id() in A.memo: return A.memo[t.get_id()]
    k = t.decl().kind()
    if z3.is_fp_value(t):
        v = _num(t); r = (RVf(v), 'c%s' % v)
    elif k == z3.Z3_OP_FPA_TO_FP and t.num_args() == 1 and z3.is_bv(t.arg(0)) and t.sort().ebits() == 8 and t.sort().sbits() == 24:
        b = t.arg(0)
        if b.eq(A.a): A.uses_x = True; r = (A.X, 'X')
        else:
            if _vars(b) - {A.a.decl().name()}: raise Unsupported('leaf depends on other inputs: %s' % sorted(_vars(b)))
            if A.leaf is not None and not A.leaf.eq(b): raise Unsupported('more than one bit-cast leaf besides the input')
            A.leaf = b; r = (A.Y0, 'L[%s]' % z3.substitute(b, (A.a, z3.BitVec('_x', 32))).sexpr())
    elif k in (z3.Z3_OP_FPA_MUL, z3.Z3_OP_FPA_ADD, z3.Z3_OP_FPA_SUB):
        rm, l, rr = t.children()
        if rm.decl().kind() != z3.Z3_OP_FPA_RM_NEAREST_TIES_TO_EVEN: raise Unsupported('rounding mode %s' % rm)
        (ra, ka), (rb, kb) = walk(l, A), walk(rr, A)
        op = {z3.Z3_OP_FPA_MUL: 'mul', z3.Z3_OP_FPA_ADD: 'add', z3.Z3_OP_FPA_SUB: 'sub'}[k]
        kind = 'op'
        if op == 'mul':       # multiplication of the raw input by the constant 1/2: exact unless the result is subnormal (lemma HALF)
            for c, o in ((l, rr), (rr, l)):
                if z3.is_fp_value(c) and _num(c) == F(1, 2) and o.decl().kind() == z3.Z3_OP_FPA_TO_FP and o.num_args() == 1 and o.arg(0).eq(A.a): kind = 'half'
        d = z3.Real('d%d' % len(A.nodes))
        A.nodes.append(Node(t, d, kind, op, l, rr))
        ex = ra * rb if op == 'mul' else (ra + rb if op == 'add' else ra - rb)
        key = '(%s %s)' % (op, ' '.join(sorted([ka, kb]) if op != 'sub' else [ka, kb]))
        r = (ex * (1 + d), key)
    else:
        raise Unsupported('FP operation %s is outside the standard-model walker' % t.decl())
    A.memo[t.get_id()] = r
    return r

_SYM = {}
class Comp:
    """one output component: symbolic term of the real code and its abstraction"""
    def __init__(s, L, k):
        s.L = L; s.k = k; s.fname = 'isq%d' % L; s.name = 'c01lowp.isq%d[%d]' % (L, k)
        if L not in _SYM: _SYM[L] = sym_call(U, s.fname, mode='fp')        # one symbolic execution per length (forked job processes inherit the terms built in jobs())
        res = _SYM[L]
        s.res = res; s.a = res.ins[0][k]; s.Y = res.outs[0][k]
        s.side = res.obligations; s.axioms = res.axioms
        s.A = Absn(s.a)
        s.Yabs, s.key = walk(s.Y.fp, s.A)
        s.pre = pre_x(s.a) + list(res.axioms)
        s.binfo = 'x = component %d of vec%d, all positive normal floats (bits 0x00800000..0x7f7fffff); ll=%s' % (k, L, U.ll_sha())
        if s.A.leaf is not None:
            s.C = z3.simplify(z3.substitute(s.A.leaf, (s.a, bv(0, 32)))).as_long(); s.Ec = s.C >> 23; s.Mc = s.C & 0x7fffff
        else: s.C = None
    def Yz(s, z): return z3.substitute(s.Yabs, (s.A.X, z), (s.A.Y0, z3.RealVal(1)))

# ------------------------------------------------------------------------------------------------ native evaluation of the TRUE property, exact bit-precise refinement
def native_eval(c, xb):
    """the property itself on one input, natively (both compilers), in exact rational arithmetic"""
    info = {'unit': U.name, 'fn': c.fname, 'inputs': [[hex(xb if j == c.k else 0x3f800000) for j in range(c.L)]], 'component': c.k, 'property': 'C01', 'native': {}}
    bad = False
    for cxx in ('g++', 'clang++-14'):
        vals = [0x3f800000] * c.L; vals[c.k] = xb
        yb = U.call_native(c.fname, [vals], cxx=cxx)[0][c.k]
        y = bits_to_float(yb, 32); x = bits_to_float(xb, 32)
        if y != y or y in (float('inf'), float('-inf')): ok = False; g = None
        else:
            g = F(y) * F(y) * F(x); ok = (y > 0) and (CL2 < g < CH2)
        info['native'][cxx] = {'Y': hex(yb), 'Y*sqrt(x)-1': (math.sqrt(float(g)) - 1 if g is not None and g >= 0 else None), 'within_2^-8': ok}
        if not ok: bad = True
    return bad, info

WSORT = z3.FPSort(11, 80)          # Y^2*x of binary32 values has at most 72 significant bits: the two multiplications below are exact
def exact_goals(abits, Yfp):
    xw = z3.fpFPToFP(z3.RNE(), fpof(abits), WSORT); yw = z3.fpFPToFP(z3.RNE(), Yfp, WSORT)
    G = z3.fpMul(z3.RNE(), z3.fpMul(z3.RNE(), yw, yw), xw)
    return [('lo', z3.fpLT(z3.FPVal(float(CL2), WSORT), G)), ('hi', z3.fpLT(G, z3.FPVal(float(CH2), WSORT))), ('pos', z3.fpGT(Yfp, FPV(0.0)))]
assert F(float(CL2)) == CL2 and F(float(CH2)) == CH2

def refine(S, c, cand, sides=('lo', 'hi', 'pos'), frees=(10, 13), timeout=20, dom=None):
    """bit-precise query with the exact specification on the 2^free bit patterns around cand; a model is replayed natively"""
    dom = dom if dom is not None else c.pre
    for free in frees:
        hy = list(dom) + [z3.Extract(31, free, c.a) == bv(cand >> free, 32 - free)]
        for label, g in exact_goals(c.a, c.Y.fp):
            if label not in sides: continue
            r, m, dt, used = S.query(hy + [z3.Not(g)], timeout, 'z3')
            rec = S.rec(name='%s.refine[%s,%#x/%d]' % (c.name, label, cand, free), kind='refine', functions=FNTXT(c.L), bounds='exact specification, window of 2^%d bit patterns' % free,
                        solver=used, result=r, time_s=round(dt, 3), mandatory=False, status='search')
            if r == 'sat':
                xb = m.eval(c.a, model_completion=True).as_long()
                bad, info = native_eval(c, xb); rec['replay_info'] = info
                if bad: rec['replay'] = 'reproduced'; return 'reproduced', info
    return 'not-reproduced', {'note': 'no natively reproducible counterexample in the windows around %#x' % cand}

def mk_replay(S, c, cands_of):
    """replay for a lemma: lift the lemma's model to candidate inputs; evaluate the real property natively there, else search bit-precisely around them"""
    def replay(m):
        cands = [x for x in cands_of(m) if XMIN <= x <= XMAX][:4]
        seen = []
        for x in cands:
            bad, info = native_eval(c, x)
            if bad: info['how'] = 'input taken from the solver model of the failing lemma'; return 'reproduced', info
            seen.append(hex(x))
        for x in cands[:2]:
            v, info = refine(S, c, x)
            if v == 'reproduced': info['how'] = 'bit-precise exact-specification query in a window around the lifted model'; return v, info
        return 'not-reproduced', {'candidates': seen, 'note': 'the lemma fails but the property holds natively at the lifted inputs; the lemma chain is too weak for this code'}
    return replay
def cands_bits(c):
    def f(m):
        try: return [m.eval(c.a, model_completion=True).as_long()]
        except Exception: return []
    return f

# ------------------------------------------------------------------------------------------------ the real pieces
def zcase(c, p, b):
    """real relaxation of case (p,b): returns (M, mt, z expression, hypotheses)"""
    M = z3.Real('M'); mt = z3.Real('mt')
    my = c.Mc + b * (1 << 23) - p * (1 << 22) - mt
    K = 2 * c.Ec - 381 + p - 2 * b
    y1 = 1 + my / (1 << 23)
    zexp = RVf(F(2) ** K) * y1 * y1 * (1 + M / (1 << 23))
    hy = [M >= 0, M <= (1 << 23) - 1, mt <= M / 2, mt >= M / 2 - F(1, 2)]
    hy += [p * (1 << 22) + mt <= c.Mc] if b == 0 else [p * (1 << 22) + mt >= c.Mc + 1]
    return M, mt, zexp, hy
def case_nonempty(c, p, b):
    lo, hi = p * (1 << 22), p * (1 << 22) + (1 << 22) - 1          # range of r = p*2^22 + (M>>1)
    return lo <= c.Mc if b == 0 else hi >= c.Mc + 1
def case_bits(p, Mv):
    """representative input for case p (biased exponent 127 or 128 - the exponent cancels) and real mantissa Mv"""
    E = 127 if p == 1 else 128
    Mi = max(0, min((1 << 23) - 1, int(round(Mv))))
    return (E << 23) | Mi
def lift_z(S, c, zstar):
    """inputs whose y0^2*x is close to zstar (search aid for the refinement only)"""
    out = []
    for tol in (F(1, 10000), F(1, 100), F(1)):
        for p in (0, 1):
            for b in (0, 1):
                if not case_nonempty(c, p, b): continue
                M, mt, zexp, hy = zcase(c, p, b)
                r, m, dt, used = S.query(hy + [zexp >= RVf(zstar - tol), zexp <= RVf(zstar + tol)], 10, 'qfnra')
                if r == 'sat':
                    out.append(case_bits(p, float(z3val_to_fraction(m.eval(M, model_completion=True)))))
        if out: break
    return out

def chain_component(S, c, twins=False):
    """all cheap lemmas (bit-vector fields, halving, identity, nlsat) for one component"""
    A = c.A; a = c.a; nm = c.name; fn = FNTXT(c.L); bi = c.binfo
    rp_bits = mk_replay(S, c, cands_bits(c))
    kw = dict(functions=fn, kind='lemma')
    if c.side:      # straight-line code: the executor raised no obligations; if it did, they must hold
        for i, (kind, cond, d) in enumerate(c.side):
            S.prove('%s.side[%s:%s]' % (nm, kind, d[:40]), z3.Not(cond), c.pre, timeout=S.cap(30, 90), kind=kind, functions=fn, bounds=bi, replay=rp_bits)
    S.prove(nm + '.witness', z3.BoolVal(False), c.pre, timeout=20, kind='witness', functions=fn, bounds=bi, expect='sat', mandatory=False)
    if A.leaf is None: raise Unsupported('no bit-cast leaf besides the input (not the magic-constant scheme)')
    # ---- FIELDS: the leaf (magic constant minus half the bits) as integer functions of the fields of x; C is read off the term
    W = 34
    E = z3.Extract(30, 23, a)
    q = z3.ZeroExt(W - 7, z3.Extract(30, 24, a)); p = z3.ZeroExt(W - 1, z3.Extract(23, 23, a)); mh = z3.ZeroExt(W - 22, z3.Extract(22, 1, a))
    r_ = p * (1 << 22) + mh
    b = z3.If(r_ > c.Mc, bv(1, W), bv(0, W))
    ey = z3.ZeroExt(W - 8, z3.Extract(30, 23, A.leaf)); my = z3.ZeroExt(W - 23, z3.Extract(22, 0, A.leaf))
    bf = bi + '; leaf = %s, C = leaf(0) = %#x' % (z3.substitute(A.leaf, (a, z3.BitVec('bits_x', 32))).sexpr().replace('\n', ' '), c.C)
    for label, g in (('sign', z3.Extract(31, 31, A.leaf) == 0), ('normal', z3.And(ey >= 1, ey <= 254)),
                     ('exp', ey == bv(c.Ec, W) - q - b), ('man', my == bv(c.Mc, W) + b * (1 << 23) - r_),
                     ('K', 2 * ey + z3.ZeroExt(W - 8, E) - 381 == bv((2 * c.Ec - 381) % (1 << W), W) + p - 2 * b)):
        S.prove('%s.fields.%s' % (nm, label), g, c.pre, timeout=S.cap(30, 90), bounds=bf, replay=rp_bits, **kw)
    # ---- HALF
    for n in A.nodes:
        if n.kind != 'half': continue
        nb = z3.ZeroExt(2, z3.fpToIEEEBV(n.term)); a2 = z3.ZeroExt(2, a); i = A.nodes.index(n)
        S.prove('%s.half[d%d].exact' % (nm, i), nb == a2 - (1 << 23), c.pre + [z3.UGE(E, 2)], timeout=S.cap(30, 90), bounds=bi + '; biased exponent >= 2', replay=rp_bits, **kw)
        S.prove('%s.half[d%d].subnormal' % (nm, i), z3.And(2 * nb - a2 <= 1, 2 * nb - a2 >= -1), c.pre + [E == 1], timeout=S.cap(30, 90), bounds=bi + '; biased exponent 1', replay=rp_bits, **kw)
    # ---- HOM: scale invariance of the abstraction (polynomial identity)
    hom = c.Yabs == A.Y0 * z3.substitute(c.Yabs, (A.X, A.X * A.Y0 * A.Y0), (A.Y0, z3.RealVal(1)))
    S.prove(nm + '.hom', hom, [], timeout=S.cap(30, 90), solver='nra', bounds='all reals X, Y0, d', replay=lambda m: ('not-reproduced', {'note': 'the code is not of the scale-invariant form y0*f(x*y0^2); this proof scheme does not apply'}), **kw)
    # ---- ZRANGE
    for pp in (0, 1):
        for bb in (0, 1):
            M, mt, zexp, hy = zcase(c, pp, bb)
            def cz(side, pp=pp, M=M, zexp=zexp, hy=hy):
                def f(m):
                    """search aid: besides the model itself, inputs where y0^2*x is (nearly) extremal in this case, found by bisection with nlsat"""
                    out = [case_bits(pp, float(z3val_to_fraction(m.eval(M, model_completion=True))))]
                    lo_t, hi_t = (ZHI, F(2)) if side == 'hi' else (F(1, 2), ZLO)
                    for _ in range(14):
                        mid = (lo_t + hi_t) / 2
                        r, mm, dt, used = S.query(hy + [zexp >= RVf(mid) if side == 'hi' else zexp <= RVf(mid)], 5, 'qfnra')
                        if r == 'sat':
                            out.insert(0, case_bits(pp, float(z3val_to_fraction(mm.eval(M, model_completion=True)))))
                            if side == 'hi': lo_t = mid
                            else: hi_t = mid
                        elif side == 'hi': hi_t = mid
                        else: lo_t = mid
                    return out
                return f
            cb = 'case E&1=%d, borrow=%d%s; reals M in [0,2^23-1], M>>1 in [M/2-1/2, M/2]; C=%#x' % (pp, bb, '' if case_nonempty(c, pp, bb) else ' (empty for this C)', c.C)
            if case_nonempty(c, pp, bb):
                S.prove('%s.zrange[%d%d].witness' % (nm, pp, bb), z3.BoolVal(False), hy, timeout=20, solver='qfnra', kind='witness', functions=fn, bounds=cb, expect='sat', mandatory=False)
            S.prove('%s.zrange[%d%d].lo' % (nm, pp, bb), zexp >= RVf(ZLO), hy, timeout=S.cap(30, 90), solver='nra', bounds=cb, replay=mk_replay(S, c, cz('lo')), **kw)
            S.prove('%s.zrange[%d%d].hi' % (nm, pp, bb), zexp <= RVf(ZHI), hy, timeout=S.cap(30, 90), solver='nra', bounds=cb, replay=mk_replay(S, c, cz('hi')), **kw)
            if twins and case_nonempty(c, pp, bb) and (pp, bb) == (0, 0):
                S.prove('%s.zrange[%d%d].twin' % (nm, pp, bb), zexp <= RVf(F(106, 100)), hy, timeout=30, solver='nra', kind='mutant-twin', functions=fn, bounds=cb + '; deliberately too tight (1.06): must be sat', expect='sat', mandatory=False)
    # ---- MAINZ
    z = z3.Real('z'); Yz = c.Yz(z); G = Yz * Yz * z
    hz = [z >= RVf(ZLO), z <= RVf(ZHI)] + A.dbounds()
    def cm(m): return lift_z(S, c, z3val_to_fraction(m.eval(z, model_completion=True)))
    bz = 'z = y0^2*x in [0.9003, 1.1035]; %d rounding errors |d| <= 2^-24 (halving node 2^-23)' % len(A.nodes)
    for label, g in (('pos', Yz > 0), ('lo', G > RVf(CL2)), ('hi', G < RVf(CH2))):
        S.prove('%s.mainz.%s' % (nm, label), g, hz, timeout=S.cap(40, 120), solver='nra', bounds=bz, replay=mk_replay(S, c, cm), **kw)
    if twins:
        S.prove('%s.mainz.twin' % nm, G > RVf(F(1023, 1024) ** 2), hz, timeout=30, solver='nra', kind='mutant-twin', functions=fn, bounds=bz + '; deliberately too tight (2^-10): must be sat', expect='sat', mandatory=False)
    # ---- COMPOSE
    Yv, Xv, Y0v, Av, zv = z3.Reals('Yv Xv Y0v Av zv')
    hc = [Xv > 0, Y0v > 0, Av > 0, Yv == Y0v * Av, zv == Y0v * Y0v * Xv, Av * Av * zv > RVf(CL2), Av * Av * zv < RVf(CH2)]
    for label, g in (('pos', Yv > 0), ('lo', Yv * Yv * Xv > RVf(CL2)), ('hi', Yv * Yv * Xv < RVf(CH2))):
        S.prove('%s.compose.%s' % (nm, label), g, hc, timeout=S.cap(30, 90), solver='nra', bounds='glue: Y = y0*A (HOM, STDMODEL), z = y0^2*x, bounds of MAINZ', replay=lambda m: ('not-reproduced', {}), **kw)

def _sample_inputs(c):
    """inputs used only to PROPOSE exponent intervals for the range lemmas (every proposed interval is then proved for all inputs by the solver)"""
    ms = {0, 1, 2, (1 << 23) - 1, (1 << 23) - 2, 1 << 22, (1 << 22) - 1, (1 << 22) + 1} | {(k << 23) // 16 for k in range(1, 16)}
    if c.C is not None:
        for base in (2 * c.Mc, 2 * (c.Mc - (1 << 22))):
            ms |= {base + dlt for dlt in (-2, -1, 0, 1, 2, 3)}
    ms = sorted(m for m in ms if 0 <= m < (1 << 23))
    return [(E << 23) | m for E in (1, 2, 3, 126, 127, 128, 129, 253, 254) for m in ms]
def range_plan(c):
    """per operation node: observed (sign, emin, emax) on the sample inputs; 'tight' nodes (exponent spread <= 2, constant sign) are proved to lie in exactly that interval and are
    replaced by a fresh float of that interval in the queries of the nodes above them (modular range propagation; the multipliers below a tight node disappear from the query)"""
    if getattr(c, '_plan', None) is not None: return c._plan
    obs = {}
    for i, n in enumerate(c.A.nodes):
        if n.kind == 'half': continue
        nb = z3.fpToIEEEBV(n.term); es = set(); sg = set()
        for xb in _sample_inputs(c):
            v = z3.simplify(z3.substitute(nb, (c.a, bv(xb, 32))))
            if not z3.is_bv_value(v): raise Unsupported('node %d does not evaluate on a concrete input' % i)
            v = v.as_long(); es.add((v >> 23) & 0xff); sg.add(v >> 31)
        obs[i] = (sg, min(es), max(es))
    plan = {}; subst = []; hyps = []
    for i, n in enumerate(c.A.nodes):
        if n.kind == 'half': continue
        sg, emin, emax = obs[i]
        tight = len(sg) == 1 and emax - emin <= 2 and emin >= 2 and emax < 254
        term = z3.substitute(n.term, *subst) if subst else n.term
        l = z3.substitute(n.l, *subst) if subst else n.l; r = z3.substitute(n.r, *subst) if subst else n.r
        vs = _vars(term) | _vars(l) | _vars(r)
        used = [(v, h) for (v, h) in hyps if v.decl().name() in vs]
        hy = (c.pre if c.a.decl().name() in vs else []) + [x for v, h in used for x in h]
        lo, hi = (emin, emax) if tight else (2, 254)
        # biased exponent in [lo,hi] and sign, written as FP comparisons (cvc5 has no fp.to_ieee_bv): lo <= e  <=>  v >= 2^(lo-127),  e <= hi  <=>  v < 2^(hi-126)  (v <= FLT_MAX for hi = 254)
        v = term if sg == {0} else (z3.fpNeg(term) if sg == {1} else z3.fpAbs(term))
        sgn = {0: 'sign 0, ', 1: 'sign 1, '}.get(min(sg) if len(sg) == 1 else None, '')
        goals = [('exp>=%d' % lo, z3.fpGEQ(v, FPV(2.0 ** (lo - 127))), 'cvc5'),
                 ('exp<=%d' % hi, z3.fpLT(v, FPV(2.0 ** (hi - 126))) if hi < 254 else z3.fpLEQ(v, fpof(bv(0x7f7fffff, 32))), 'cvc5')]
        if n.op in ('add', 'sub'):
            el = z3.ZeroExt(2, z3.Extract(30, 23, z3.fpToIEEEBV(l))); er = z3.ZeroExt(2, z3.Extract(30, 23, z3.fpToIEEEBV(r)))
            goals.append(('expgap<=28', z3.And(el - er <= 28, er - el <= 28), 'z3'))
        note = '%sbiased exponent of the node in [%d,%d]%s' % (sgn, lo, hi, '; operands below replaced by any float of their proved exponent interval/sign: %s' % ', '.join(str(v) for v, h in used) if used else '')
        plan[i] = (goals, hy, note)
        if tight:
            T = z3.FP('T%d' % i, z3.Float32())
            Tv = T if sg == {0} else z3.fpNeg(T)
            subst.append((n.term, T))
            hyps.append((T, [z3.fpGEQ(Tv, FPV(2.0 ** (emin - 127))), z3.fpLT(Tv, FPV(2.0 ** (emax - 126)))]))
    c._plan = plan
    return plan
def range_nodes(c): return sorted(range_plan(c))
def prove_fp(S, name, goal, hyps, *, pref='cvc5', timeout=None, vars_=(), **kw):
    """S.prove with cvc5 first (symfpu decides the one-multiplier range queries in well under a second where z3 needs 2-40 s); only cvc5's 'unsat' is taken as is,
    anything else is handed to z3 through S.prove (model, replay and bookkeeping)"""
    timeout = timeout or S.cap(150, 400)
    if pref == 'cvc5':
        try: r, m, dt, used = S.query(list(hyps) + [z3.Not(goal)], min(timeout, 60), 'cvc5', vars_)
        except Exception: r = 'unknown'
        if r == 'unsat':
            S.rec(name=name, kind=kw.get('kind', 'lemma'), functions=list(kw.get('functions', ())), bounds=kw.get('bounds', ''), solver=used, result=r, time_s=round(dt, 3), mandatory=True, note='', status='discharged')
            return r, None
    return S.prove(name, goal, hyps, timeout=timeout, solver='z3', vars_=vars_, **kw)
def range_component(S, c, only=None, covers=''):
    rp = mk_replay(S, c, cands_bits(c))
    for i, (goals, hy, note) in sorted(range_plan(c).items()):
        if only is not None and i not in only: continue
        for label, g, pref in goals:
            prove_fp(S, '%s.range[d%d:%s].%s' % (c.name, i, c.A.nodes[i].op, label), g, hy, pref=pref, vars_=[c.a], kind='lemma', functions=FNTXT(c.L),
                     bounds=c.binfo + '; ' + note + covers, replay=rp)

def stdmodel_lemmas(S):
    """supporting lemmas of the standard model (generic, independent of glm)"""
    D = z3.Float64(); r = z3.FP('r', D)
    f = z3.fpFPToFP(z3.RNE(), r, z3.Float32()); back = z3.fpFPToFP(z3.RNE(), f, D)
    hy = [z3.fpGEQ(z3.fpAbs(r), z3.FPVal(2.0 ** -126, D)), z3.fpLEQ(z3.fpAbs(r), z3.FPVal(2.0 ** 127, D))]
    kw = dict(kind='lemma', functions=['IEEE-754 (no glm code)'], timeout=S.cap(60, 180))
    S.prove('c01lowp.stdmodel.round', z3.fpLEQ(z3.fpAbs(z3.fpSub(z3.RNE(), back, r)), z3.fpMul(z3.RNE(), z3.FPVal(2.0 ** -24, D), z3.fpAbs(r))), hy,
            bounds='every binary64 r with 2^-126 <= |r| <= 2^127: |binary32(r) - r| <= 2^-24*|r|', **kw)
    S.prove('c01lowp.stdmodel.round.exact', z3.fpEQ(z3.fpSub(z3.RTP(), back, r), z3.fpSub(z3.RTN(), back, r)), hy,
            bounds='the subtraction in stdmodel.round is exact (same result rounding up and down)', **kw)
    a = z3.BitVec('fa', 32); b = z3.BitVec('fb', 32)
    up = lambda v: z3.fpFPToFP(z3.RNE(), fpof(v), D)
    S.prove('c01lowp.stdmodel.exact64.mul', z3.fpEQ(z3.fpMul(z3.RTP(), up(a), up(b)), z3.fpMul(z3.RTN(), up(a), up(b))), [finite(a), finite(b)],
            bounds='all finite binary32 a, b: a*b is exact in binary64 (same result rounding up and down)', **kw)
    ea = z3.ZeroExt(2, z3.Extract(30, 23, a)); eb = z3.ZeroExt(2, z3.Extract(30, 23, b))
    S.prove('c01lowp.stdmodel.exact64.sub', z3.fpEQ(z3.fpSub(z3.RTP(), up(a), up(b)), z3.fpSub(z3.RTN(), up(a), up(b))), [finite(a), finite(b), ea - eb <= 28, eb - ea <= 28],
            bounds='all finite binary32 a, b with biased exponents at most 28 apart: a-b is exact in binary64', **kw)
    S.prove('c01lowp.stdmodel.exact64.add', z3.fpEQ(z3.fpAdd(z3.RTP(), up(a), up(b)), z3.fpAdd(z3.RTN(), up(a), up(b))), [finite(a), finite(b), ea - eb <= 28, eb - ea <= 28],
            bounds='all finite binary32 a, b with biased exponents at most 28 apart: a+b is exact in binary64', **kw)

# ------------------------------------------------------------------------------------------------ thorough: fully bit-precise proof on [1,4)
BITS_PARTITION = True        # thorough: fully bit-precise proof on [1,4) (about 770 queries of 5-15 s); set False to drop these jobs
KBITS_LO, KBITS_HI = 8, 7     # top mantissa bits fixed per sub-interval: the lower bound has slack 2^-8 - 2^-9.16 (needs relative width <= 2^-8), the upper bound 2^-8 (2^-7 suffices)
def _fl_ge(fr):
    """smallest binary32 >= fr (fr > 0)"""
    b = f32(float(fr))
    while F(bits_to_float(b, 32)) < fr: b += 1
    while F(bits_to_float(b - 1, 32)) >= fr: b -= 1
    return b
def interval_bounds(B, nfree):
    """constant bounds for the bit patterns B .. B+2^nfree-1 (positive normal): L^2*xmin > CL2, H^2*xmax < CH2, asserted exactly"""
    xmin = F(bits_to_float(B, 32)); xmax = F(bits_to_float(B + (1 << nfree) - 1, 32))
    prec = 100
    lo_r = F(math.isqrt((CL2.numerator * xmin.denominator << (2 * prec)) // (CL2.denominator * xmin.numerator)) + 1, 1 << prec)     # > sqrt(CL2/xmin)
    hi_r = F(math.isqrt((CH2.numerator * xmax.denominator << (2 * prec)) // (CH2.denominator * xmax.numerator)), 1 << prec)        # <= sqrt(CH2/xmax)
    Lb = _fl_ge(lo_r)
    Hb = _fl_ge(hi_r) - 1
    Lf = F(bits_to_float(Lb, 32)); Hf = F(bits_to_float(Hb, 32))
    assert Lf * Lf * xmin > CL2 and Hf * Hf * xmax < CH2 and 0 < Lf
    return Lb, Hb
def prove_interval(S, c, B, nfree, label, depth=0):
    """Y >= L (label lo) / Y <= H (label hi) for every input pattern in [B, B+2^nfree); on a spurious model the interval is halved (complete), at depth 3 the exact
    specification is used"""
    hy = [z3.Extract(31, nfree, c.a) == bv(B >> nfree, 32 - nfree)]
    Lb, Hb = interval_bounds(B, nfree)
    exact = depth >= 3
    if exact: g = dict((l, t) for l, t in exact_goals(c.a, c.Y.fp))[label]
    else:       # FP comparisons (cvc5 has no fp.to_ieee_bv): NaN fails both, -x and +inf fail 'hi', so lo and hi together give finite, positive, within bounds
        g = z3.fpGEQ(c.Y.fp, fpof(bv(Lb, 32))) if label == 'lo' else z3.And(z3.fpLEQ(c.Y.fp, fpof(bv(Hb, 32))), z3.fpGT(c.Y.fp, FPV(0.0)))
    name = '%s.bits[%#010x+2^%d].%s' % (c.name, B, nfree, label)
    bd = 'bit-precise IEEE, inputs %#010x..%#010x; %s' % (B, B + (1 << nfree) - 1, 'exact specification' if exact else ('Y >= %s (bits %#x)' % (bits_to_float(Lb, 32), Lb) if label == 'lo' else '0 < Y <= %s (bits %#x)' % (bits_to_float(Hb, 32), Hb)))
    t = S.cap(120, 300)
    # cvc5 (symfpu) is about twice as fast as z3 on these queries; z3 is the fallback
    r, m, dt, used = S.query(hy + [z3.Not(g)], min(t, 90), 'cvc5', vars_=[c.a])
    if r == 'unknown':
        r, m, dt2, used2 = S.query(hy + [z3.Not(g)], t, 'z3'); dt += dt2; used = used + '+' + used2
    if r == 'sat':
        xb = m.get(c.a.sexpr(), 0) if isinstance(m, dict) else m.eval(c.a, model_completion=True).as_long()
        bad, info = native_eval(c, xb)
        if bad:
            S.rec(name=name, kind='spec', functions=FNTXT(c.L), bounds=bd, solver=used, result=r, time_s=round(dt, 3), mandatory=True, status='counterexample', replay='reproduced', replay_info=info)
            S.violations.append((name, info)); return
        if not exact:
            S.rec(name=name + '.coarse', kind='refine', functions=FNTXT(c.L), bounds=bd, solver=used, result=r, time_s=round(dt, 3), mandatory=False, status='split (constant bound too coarse here)')
            h = nfree - 1
            prove_interval(S, c, B, h, label, depth + 1); prove_interval(S, c, B + (1 << h), h, label, depth + 1); return
        S.rec(name=name, kind='spec', functions=FNTXT(c.L), bounds=bd, solver=used, result=r, time_s=round(dt, 3), mandatory=True, status='inconclusive(cex not reproduced)', replay='not-reproduced', replay_info=info)
        S.inconclusive.append(name + ' [counterexample not reproduced natively]'); return
    rec = S.rec(name=name, kind='spec', functions=FNTXT(c.L), bounds=bd, solver=used, result=r, time_s=round(dt, 3), mandatory=True, status='discharged' if r == 'unsat' else 'inconclusive')
    if r != 'unsat': S.inconclusive.append(name)

# ------------------------------------------------------------------------------------------------ jobs
def _components(): return [(L, k) for L in LENGTHS for k in range(L)]
def job_chain(comps, tier):
    def run(S):
        for (L, k) in comps:
            try: c = Comp(L, k)
            except Unsupported as e:
                S.rec(name='c01lowp.isq%d[%d]' % (L, k), kind='encode', result='unsupported', status='not-encoded', note=str(e), mandatory=True, functions=FNTXT(L))
                S.inconclusive.append('c01lowp.isq%d[%d] [not encoded: %s]' % (L, k, e)); continue
            try: chain_component(S, c, twins=(tier != 'quick' and (L, k) == (1, 0)))
            except Unsupported as e:
                S.rec(name=c.name, kind='encode', result='unsupported', status='not-encoded', note=str(e), mandatory=True, functions=FNTXT(L))
                S.inconclusive.append('%s [not encoded: %s]' % (c.name, e))
    return run
def job_std(S): stdmodel_lemmas(S)
def job_range(L, k):
    def run(S):
        try: c = Comp(L, k)
        except Unsupported: return            # reported by the chain job
        try: range_component(S, c)
        except Unsupported as e:
            S.rec(name=c.name + '.range', kind='encode', result='unsupported', status='not-encoded', note=str(e), mandatory=True, functions=FNTXT(L))
            S.inconclusive.append('%s.range [not encoded: %s]' % (c.name, e))
    return run
def job_bits(label, kbits, idxs):
    def run(S):
        c = Comp(1, 0)
        nfree = 23 - kbits
        for idx in idxs:
            B = (127 << 23) + (idx << nfree)         # idx in 0 .. 2^(kbits+1)-1 enumerates [1,4) without gaps: biased exponent 127 + (idx >> kbits), top mantissa bits idx & (2^kbits-1)
            prove_interval(S, c, B, nfree, label)
    return run
def job_subnormal(S):
    kf = S.known.get(KF_SUBNORMAL)
    if not kf or kf.get('status', 'open') != 'open': return
    c = Comp(1, 0)
    v, info = refine(S, c, 0x00400000, sides=('lo',), frees=(10,), dom=[])
    S.rec(name=c.name + '.known[%s]' % KF_SUBNORMAL, kind='known-finding-probe', functions=FNTXT(1), bounds='subnormal x, bits 0x00400000..0x004003ff', solver='z3', result='sat' if v == 'reproduced' else 'unsat/unknown',
          time_s=0.0, mandatory=False, status='known-finding' if v == 'reproduced' else 'known-finding-absent', replay_info=info)
    if v == 'reproduced': S.known_hits.append((KF_SUBNORMAL, kf['what']))

def jobs(tier):
    quick = tier == 'quick'
    out = [('lowp.isq.chain.v%d' % L, job_chain([(L, k) for k in range(L)], tier)) for L in LENGTHS]
    out.append(('lowp.isq.stdmodel', job_std))
    out += [('lowp.isq.range.v%d_%d' % (L, k), job_range(L, k)) for (L, k) in _components()]
    out.append(('lowp.isq.subnormal', job_subnormal))
    if not quick and BITS_PARTITION:
        for label, kbits in (('lo', KBITS_LO), ('hi', KBITS_HI)):
            n = 1 << (kbits + 1); per = 8
            for j in range(0, n, per):
                out.append(('lowp.isq.bits.%s.%03d' % (label, j // per), job_bits(label, kbits, list(range(j, min(n, j + per))))))
    return out
