"""C13 - slerp / mix / lerp interpolate rotations at constant angular speed along the right arc (ext/quaternion_common.inl, gtx/quaternion.inl, gtx/dual_quaternion.inl)."""
from props.common import *
import math, struct
from fractions import Fraction
import realtrig
from props.c04 import (qmul, qconj, norm2, dot, rv, Trig, mkex, chk, fr, vec_goals, is_num, ZERO, ONE, EPS, abstract_ites)

LEVEL = 'proof'
CLAIM = ("slerp (with and without spin count), mix, lerp, gtx shortMix / fastMix / squad and the dual-quaternion lerp are executed symbolically from their clang IR. In rounding-erased real "
         "arithmetic the solver proves, as a chain of lemmas each of which is a discharged obligation: the result has the shape (sin(theta-u) x + sin(u) z)/sin(theta) with z = +-y chosen so that "
         "<x,z> >= 0 (slerp) resp. z = y (mix), theta = acos<x,z>, u = t*theta (u = t*(theta+k*pi) with spins); hence unit length, <x,result> = cos(u) and <z,result> = cos(theta-u) (constant angular speed "
         "on the great arc, any real t), end points t=0 -> x, t=1 -> +-y, symmetry slerp(x,y,t) = +-slerp(y,x,1-t); on the linear-fallback branch the result is the affine blend. lerp is bit-exactly "
         "x*(1-a)+y*a per component and its asserts are the only traps. In IEEE arithmetic the argument of acos in slerp is shown to lie in [0, 1-eps] whenever the acos branch is taken.")
BOUNDS = ("rounding-erased semantics for the arc claims (all unit x, y; every real t; spin counts k in -3..3 as separate instantiations); float and double; the branch conditions (sign flip, fallback threshold 1-eps) "
          "are those of the exact values; lerp and the acos-domain claim are bit-precise over all inputs (acos-domain: the dot product abstracted to an arbitrary non-NaN float)")
OUTSIDE = ("size of rounding errors (e.g. |norm-1| after rounding, behaviour at separations of 1e-9 rad beyond the branch analysis); mix for exactly antipodal inputs (<x,y> = -1: division by sin(pi) = 0 in exact arithmetic); "
           "squad away from its end points; gtx intermediate (quaternion exp/log); sin(acos(c)) > 0 for the libm functions in IEEE arithmetic (only the acos-domain part of the no-NaN claim is decided)")
ASSUMPTIONS = ['float/double literals that are the correctly rounded value of k*pi denote k*pi in the rounding-erased semantics',
               'libm sin/cos/acos/atan2 are the mathematical functions in the rounding-erased semantics; uninterpreted (same argument, same result) in the bit-precise obligations']

FT = {'f32': 'float', 'f64': 'double'}
SPINS = [-3, -2, -1, 0, 1, 2, 3]
U = Unit('c13', includes=['glm/glm.hpp', 'glm/gtc/quaternion.hpp', 'glm/gtx/quaternion.hpp', 'glm/gtx/dual_quaternion.hpp', 'glm/gtx/compatibility.hpp'])
for t, c in FT.items():
    Q = 'ldq<%s>' % c
    sig = ([(c, 4), (c, 4), (c, 1)], [(c, 4)])
    U.add('slerp_' + t, *sig, 'stq(o, glm::slerp(%s(a), %s(b), c[0]));' % (Q, Q))
    for k in SPINS:
        U.add('slerpk%s_%s' % (str(k).replace('-', 'm'), t), *sig, 'stq(o, glm::slerp(%s(a), %s(b), c[0], %d));' % (Q, Q, k))
    U.add('mix_' + t, *sig, 'stq(o, glm::mix(%s(a), %s(b), c[0]));' % (Q, Q))
    U.add('lerp_' + t, *sig, 'stq(o, glm::lerp(%s(a), %s(b), c[0]));' % (Q, Q))
    U.add('shortmix_' + t, *sig, 'stq(o, glm::shortMix(%s(a), %s(b), c[0]));' % (Q, Q))
    U.add('fastmix_' + t, *sig, 'stq(o, glm::fastMix(%s(a), %s(b), c[0]));' % (Q, Q))
    U.add('squad_' + t, [(c, 4), (c, 4), (c, 4), (c, 4), (c, 1)], [(c, 4)], 'stq(o, glm::squad(%s(a), %s(b), %s(c), %s(d), e[0]));' % (Q, Q, Q, Q))
    U.add('dqlerp_' + t, [(c, 8), (c, 8), (c, 1)], [(c, 8)],
          'glm::tdualquat<%s> x(%s(a), %s(a+4)), y(%s(b), %s(b+4)); auto r = glm::lerp(x, y, c[0]); stq(o, r.real); stq(o+4, r.dual);' % (c, Q, Q, Q, Q))
def units(tier): return [U]

def unit(q): return norm2(q) == 1
def kname(k): return 'slerpk%s' % str(k).replace('-', 'm')

# ------------------------------------------------------------------------------------------------ the arc: specification-side names of the scalars
def arc(i, T, flip_allowed=True, k=None):
    """theta = acos<x,z>, u = t*theta (or t*(theta+k*pi)); returns the scalars the lemmas talk about (code's own trig variables when symbolic, libm values on replay)"""
    x, y, t = i[0], i[1], i[2][0]
    c0 = dot(x, y); flip = (c0 < 0) if flip_allowed else z3.BoolVal(False)
    z = [z3.If(flip, -b, b) for b in y] if flip_allowed else list(y)
    C = z3.If(flip, -c0, c0) if flip_allowed else c0
    th = T.inv('acos', 0, C)
    u = t * th if k is None else t * (th + k * (z3.RealVal(repr(math.pi)) if is_num(th) else realtrig.real_pi(T.ex)))
    return dict(x=x, y=y, z=z, t=t, C=C, flip=flip, th=th, u=u, S=T.sin(th), Cth=T.cos(th), su=T.sin(u), cu=T.cos(u), s1=T.sin(th - u), c1=T.cos(th - u))

def arc_setup(res, T, flip_allowed=True, k=None):
    """instantiate the addition formula for (theta) + (-u) on the executor's table (true facts of sin/cos)"""
    t = res.ins[2][0]; th = T._calls('acos')[0][0]
    u = t * th if k is None else t * (th + k * realtrig.real_pi(res.ex))
    realtrig.trig_sum(res.ex, th, -u)
    return []

def job_slerp(t, fn='slerp', flip=True, k=None):
    """code links of the chain for slerp / slerp with spin count / mix"""
    eps = EPS[t]
    def run(S):
        name = fn + '_' + t
        pre = lambda i: [unit(i[0]), unit(i[1])] + ([] if flip else [dot(i[0], i[1]) > -1])
        def spec(i, o, T):
            A = arc(i, T, flip, k); out = [rv(v) for v in o[0]]
            fb = A['C'] > 1 - eps; nf = z3.Not(fb)
            g = [('acos.arg==<x,z>', RGoal('eq', T.inv_arg('acos', 0, 0, A['C']), A['C'], nf)), ('sin(theta)>0', RGoal('gt', A['S'], ZERO, nf)), ('cos(theta)==<x,z>', RGoal('eq', A['Cth'], A['C'], nf)),
                 ('sin(theta-u)==S*cu-C*su', RGoal('eq', A['s1'], A['S'] * A['cu'] - A['Cth'] * A['su'], nf)), ('cos(theta-u)==C*cu+S*su', RGoal('eq', A['c1'], A['Cth'] * A['cu'] + A['S'] * A['su'], nf))]
            g += [('shape[%d]: out*sin(theta)==sin(theta-u)*x+sin(u)*z' % j, RGoal('eq', out[j] * A['S'], A['s1'] * A['x'][j] + A['su'] * A['z'][j], nf)) for j in range(4)]
            g += [('fallback[%d]: out==x*(1-t)+z*t' % j, RGoal('eq', out[j], A['x'][j] * (1 - A['t']) + A['z'][j] * A['t'], fb)) for j in range(4)]
            g += [('short-arc: <x,z> >= 0', RGoal('ge', dot(A['x'], A['z']), ZERO))] if flip else []
            return g
        chk(S, U, name, spec, pre, setup=lambda res, T: arc_setup(res, T, flip, k),
            bounds='all unit x, y%s; every real t; chain link (code): shape of the result and the trig facts used by lemmas.*' % ('' if flip else ' with <x,y> > -1'))
        # end points: t = 0 and t = 1 as separate executions of the same code
        for tv in (0, 1):
            def spec_e(i, o, T, tv=tv):
                x, y = i[0], i[1]; c0 = dot(x, y); out = [rv(v) for v in o[0]]
                fl = (c0 < 0) if flip else z3.BoolVal(False)
                sgn = 1 if (k is None or tv == 0 or k % 2 == 0) else -1
                want = x if tv == 0 else [z3.If(fl, -b, b) * sgn for b in y]
                return [('t=%d[%d]' % (tv, j), REq(out[j], want[j])) for j in range(4)]
            x_, y_ = [z3.Real('a%d' % j) for j in range(4)], [z3.Real('b%d' % j) for j in range(4)]
            chk(S, U, name, spec_e, pre, ins=[x_, y_, [z3.RealVal(tv)]], name='c13.%s.t=%d' % (name, tv),
                bounds='all unit x, y; t = %d: result is %s' % (tv, 'x' if tv == 0 else ('+-y (the representative with <x,.> >= 0%s)' % (', times (-1)^k' if k is not None else '') if flip else 'y')))
    return run

def job_symmetry(t):
    def run(S):
        name = 'slerp_' + t; eps = EPS[t]
        ex = mkex(U, 'real', 16)
        r1 = sym_call(U, name, mode='real', ex=ex); x, y, tt = r1.ins[0], r1.ins[1], r1.ins[2][0]
        r2 = sym_call(U, name, ins=[y, x, [1 - tt]], mode='real', ex=ex)
        c0 = dot(x, y); flip = c0 < 0
        hy = [unit(x), unit(y)] + r1.axioms
        for j in range(4):
            a, b = r1.outs[0][j].r, r2.outs[0][j].r
            S.prove('c13.%s.symmetry[%d]: slerp(x,y,t) == sign(<x,y>) slerp(y,x,1-t)' % (name, j), a == z3.If(flip, -b, b), hy, timeout=S.cap(40, 120), solver='nra', kind='spec',
                    functions=['w_' + name + ' (two executions sharing the trig table)'], bounds='all unit x, y with <x,y> != 0 handled by either sign; every real t')
    return run

def job_lemmas(S):
    """code-free links: scalar and bilinear lemmas.  Together with the code links they give |out| = 1, <x,out> = cos(u), <z,out> = cos(theta-u)."""
    P = lambda n, g, h=(): S.prove('c13.lemmas.' + n, g, list(h), timeout=S.cap(30, 90), solver='nra', kind='lemma', functions=['(specification-side lemma)'])
    x = list(z3.Reals('x0 x1 x2 x3')); z = list(z3.Reals('z0 z1 z2 z3')); a, b = z3.Reals('a b')
    out = [a * p + b * q for p, q in zip(x, z)]
    P('bilinear.norm: |a x + b z|^2 == a^2|x|^2 + 2ab<x,z> + b^2|z|^2', norm2(out) == a * a * norm2(x) + 2 * a * b * dot(x, z) + b * b * norm2(z))
    P('bilinear.dotx: <x, a x + b z> == a|x|^2 + b<x,z>', dot(x, out) == a * norm2(x) + b * dot(x, z))
    P('bilinear.dotz: <z, a x + b z> == a<x,z> + b|z|^2', dot(z, out) == a * dot(x, z) + b * norm2(z))
    Sn, C, su, cu, s1, N, D, nx, nz, d = z3.Reals('S C su cu s1 N D nx nz d')
    trig = [Sn * Sn + C * C == 1, su * su + cu * cu == 1, s1 == Sn * cu - C * su]
    P('scalar.norm: s1^2 + 2 s1 su C + su^2 == S^2', s1 * s1 + 2 * s1 * su * C + su * su == Sn * Sn, trig)
    P('scalar.dotx: s1 + su C == S cu', s1 + su * C == Sn * cu, trig)
    P('scalar.dotz: s1 C + su == S (C cu + S su)', s1 * C + su == Sn * (C * cu + Sn * su), trig)
    P('glue.norm: |out|^2 == 1', N == 1, [N * Sn * Sn == s1 * s1 * nx + 2 * s1 * su * d + su * su * nz, nx == 1, nz == 1, d == C, s1 * s1 + 2 * s1 * su * C + su * su == Sn * Sn, Sn > 0])
    P('glue.dotx: <x,out> == cos(u)', D == cu, [D * Sn == s1 * nx + su * d, nx == 1, d == C, s1 + su * C == Sn * cu, Sn > 0])
    P('glue.dotz: <z,out> == cos(theta-u)', D == C * cu + Sn * su, [D * Sn == s1 * d + su * nz, nz == 1, d == C, s1 * C + su == Sn * (C * cu + Sn * su), Sn > 0])
    # |y| = 1 -> |z| = 1 and <x,z> = |<x,y>| for z = +-y
    y = list(z3.Reals('y0 y1 y2 y3')); f = z3.Bool('flip'); zz = [z3.If(f, -v, v) for v in y]
    P('flip.norm: |+-y| == |y|', norm2(zz) == norm2(y)); P('flip.dot', dot(x, zz) == z3.If(f, -dot(x, y), dot(x, y)))
    # fallback branch: affine blend of unit quaternions with <x,z> = C: |r|^2 - 1 == -2 t (1-t) (1-C)
    tt = z3.Real('t'); bl = [p * (1 - tt) + q * tt for p, q in zip(x, z)]
    P('fallback.norm: |x(1-t)+z t|^2 - 1 == -2t(1-t)(1-<x,z>)', norm2(bl) - 1 == -2 * tt * (1 - tt) * (1 - dot(x, z)), [norm2(x) == 1, norm2(z) == 1])

def job_lerp(t):
    c = FT[t]; w = 32 if t == 'f32' else 64
    def run(S):
        one = FPV(1.0, w)
        def pre(i): a = fpof(i[2][0]); return [z3.fpGEQ(a, FPV(0.0, w)), z3.fpLEQ(a, one)]
        def spec(i, o):
            a = fpof(i[2][0]); om = z3.fpSub(RNE, one, a)
            return [('lerp[%d] == x*(1-a) + y*a (IEEE)' % j, same_float(o[0][j], z3.fpToIEEEBV(z3.fpAdd(RNE, z3.fpMul(RNE, fpof(i[0][j]), om), z3.fpMul(RNE, fpof(i[1][j]), a))))) for j in range(4)]
        S.check_fn(U, 'lerp_' + t, spec, pre, mode='fp', bounds='all bit patterns of x, y; 0 <= a <= 1 (the asserted range): no trap reachable, result bit-identical to the documented expression',
                   mutant=lambda i, o: [('m', same_float(o[0][0], z3.fpToIEEEBV(z3.fpAdd(RNE, z3.fpMul(RNE, fpof(i[0][0]), fpof(i[2][0])), z3.fpMul(RNE, fpof(i[1][0]), z3.fpSub(RNE, one, fpof(i[2][0])))))))])
        # the asserts are live: outside [0,1] a trap is reachable
        res = sym_call(U, 'lerp_' + t, mode='fp')
        traps = [cnd for kind, cnd, d in res.obligations if kind == 'trap']
        a = fpof(res.ins[2][0])
        S.prove('c13.lerp_%s.assert-live(a>1)' % t, z3.Not(z3.Or(*traps)) if traps else z3.BoolVal(True), [z3.fpGT(a, one)], timeout=S.cap(20, 60), kind='mutant-twin', expect='sat', mandatory=False, functions=['w_lerp_' + t])
        S.prove('c13.lerp_%s.assert-live(a<0)' % t, z3.Not(z3.Or(*traps)) if traps else z3.BoolVal(True), [z3.fpLT(a, FPV(0.0, w))], timeout=S.cap(20, 60), kind='mutant-twin', expect='sat', mandatory=False, functions=['w_lerp_' + t])
        # dual-quaternion linear blend: x*(1-a) + y*(+-a), sign by <x.real, y.real>; end points
        def pre_d(i): return [i[2][0] >= 0, i[2][0] <= 1]
        def spec_d(i, o, T):
            x, y, a = i[0], i[1], i[2][0]; kk = z3.If(dot(x[:4], y[:4]) < 0, -a, a)
            return [('dualquat.lerp[%d] == x*(1-a) + y*(+-a)' % j, REq(rv(o[0][j]), x[j] * (1 - a) + y[j] * kk)) for j in range(8)]
        chk(S, U, 'dqlerp_' + t, spec_d, pre_d, bounds='all dual quaternions, 0 <= a <= 1 (asserted range, traps unreachable); rounding-erased')
        for tv in (0, 1):
            def spec_de(i, o, T, tv=tv):
                x, y = i[0], i[1]; sg = z3.If(dot(x[:4], y[:4]) < 0, -ONE, ONE)
                return [('dualquat.lerp.t=%d[%d]' % (tv, j), REq(rv(o[0][j]), x[j] if tv == 0 else y[j] * sg)) for j in range(8)]
            chk(S, U, 'dqlerp_' + t, spec_de, None, ins=[[z3.Real('a%d' % j) for j in range(8)], [z3.Real('b%d' % j) for j in range(8)], [z3.RealVal(tv)]], name='c13.dqlerp_%s.t=%d' % (t, tv),
                bounds='a = %d: result is %s' % (tv, 'x' if tv == 0 else '+-y (sign of <x.real,y.real>)'))
    return run

def jobs(tier):
    q = tier == 'quick'; J = [('lemmas', job_lemmas)]
    for t in FT:
        J += [('slerp_' + t, job_slerp(t)), ('mix_' + t, job_slerp(t, 'mix', flip=False)), ('symmetry_' + t, job_symmetry(t)), ('lerp_' + t, job_lerp(t))]
        for k in ((-1, 2) if q else SPINS): J.append(('%s_%s' % (kname(k), t), job_slerp(t, kname(k), k=k)))
    return J
