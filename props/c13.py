"""C13 - slerp / mix / lerp interpolate rotations at constant angular speed along the right arc (ext/quaternion_common.inl, gtx/quaternion.inl, gtx/dual_quaternion.inl)."""
from props.common import *
import math, struct, json
from fractions import Fraction
import realtrig
from irsym import Exec

LEVEL = 'proof'
CLAIM = ("slerp (with and without spin count k = -3..3), mix, lerp, gtx shortMix / fastMix / squad / intermediate, the gtx/compatibility lerp overloads and the dual-quaternion lerp are executed symbolically from "
         "their clang IR. In rounding-erased real arithmetic the solver proves, as a chain of lemmas each of which is a discharged obligation: the result has the shape (sin(theta-u) x + sin(u) z)/sin(theta) with "
         "z = +-y chosen so that <x,z> >= 0 (slerp, shortMix; theta <= pi/2: short arc) resp. z = y (mix), theta = acos<x,z> (shortMix: atan2(sqrt(1-<x,z>^2), <x,z>)), u = t*theta (u = t*(theta+k*pi) with spins); hence "
         "(code-free lemmas, for unit x, y) unit length, <x,result> = cos(u) and <z,result> = cos(theta-u) (constant angular speed on the great arc, any real t), end points t=0 -> x, t=1 -> +-y (separate executions with "
         "the literal factor), symmetry slerp(x,y,t) = +-slerp(y,x,1-t) (two executions on swapped arguments; with spins up to the sign (-1)^k); on the linear-fallback branch the result is the affine blend whose squared "
         "norm differs from 1 by at most 12 eps for t in [-2,3]. lerp(qua) and the compatibility lerp are bit-exactly x*(1-a)+y*a per component (IEEE, operands of the commutative operations sorted) and the asserts of "
         "lerp(qua) are its only traps; the dual-quaternion lerp is x*(1-a) +- y*a; fastMix is the normalised blend (unit length, end points); shortMix clamps a to [0,1]; squad returns q1 / q2 at h = 0 / 1; "
         "intermediate(q,q,q) = q (known finding: it returns the zero quaternion) and exp(qua) has the shape (cos|v|, sin|v| v/|v|). In IEEE arithmetic (bit-precise) mix, slerp and the spin overloads take the acos branch exactly when not (cosTheta > 1 - epsilon<T>) for "
         "the epsilon of the element type, and the argument of acos in slerp lies in [0, 1-eps] whenever the acos branch is taken.")
BOUNDS = ("rounding-erased semantics for the arc claims (code links: all real quaternions x, y - unit length is only needed by the code-free lemmas -, every real t; spin counts k in -3..3 as separate instantiations); "
          "float and double; the branch conditions (sign flip, fallback threshold 1-eps) are those of the exact values; lerp and the acos-domain claim are bit-precise over all inputs (acos-domain: every floating-point "
          "sum/product abstracted to an arbitrary float, the dot product assumed not NaN); squad only at h = 0 and h = 1; intermediate only for coinciding key frames (thorough tier: key frames equally spaced on a geodesic)")
OUTSIDE = ("size of rounding errors (e.g. |norm-1| after rounding, behaviour at separations of 1e-9 rad beyond the branch analysis); mix for exactly antipodal inputs (<x,y> = -1: division by sin(pi) = 0 in exact arithmetic; "
           "in IEEE arithmetic a dot product rounded below -1 makes acos return NaN); fastMix of antipodal inputs at a = 1/2 (blend is zero: normalize returns the identity quaternion); "
           "squad away from its end points; intermediate for general key frames (quaternion log/exp of real numbers are uninterpreted); sin(acos(c)) > 0 and 1 - c*c > 0 (shortMix) for the libm functions in IEEE "
           "arithmetic (only the acos-domain part of the no-NaN claim is decided); with spin count k the linear-fallback branch (<x,+-y> > 1-eps, axis of rotation ill-defined) ignores k: only end points, symmetry and the affine "
           "shape are claimed there; the composition of the chain links into |out| = 1 etc. is by hand (each link is a solver-discharged obligation, the monolithic statement is out of reach of z3 and cvc5)")
ASSUMPTIONS = ['float/double literals that are the correctly rounded value of k*pi denote k*pi in the rounding-erased semantics',
               'libm sin/cos/acos/atan2 are the mathematical functions in the rounding-erased semantics (only identities true of the real functions are used); log/exp of reals are arbitrary functions; libm is uninterpreted (same argument, same result) in the bit-precise obligations',
               'lerp bit-exactness: IEEE addition and multiplication are commutative (operands are sorted before the compiled term and the transcribed formula are compared)',
               'rewrite steps (squad, intermediate): an inner call executed on its own and the same call inlined into the outer function yield syntactically equal terms after z3.simplify; where they do not, the rewrite is a no-op and the obligation is merely harder, never unsound']

FT = {'f32': 'float', 'f64': 'double'}
SPINS = [-3, -2, -1, 0, 1, 2, 3]
def kname(k): return 'slerpk%s' % str(k).replace('-', 'm')
U = Unit('c13', includes=['glm/glm.hpp', 'glm/gtc/quaternion.hpp', 'glm/gtx/quaternion.hpp', 'glm/gtx/dual_quaternion.hpp', 'glm/gtx/compatibility.hpp'])
for t, c in FT.items():
    Q = 'ldq<%s>' % c
    sig = ([(c, 4), (c, 4), (c, 1)], [(c, 4)])
    U.add('slerp_' + t, *sig, 'stq(o, glm::slerp(%s(a), %s(b), c[0]));' % (Q, Q))
    for k in SPINS:
        U.add('%s_%s' % (kname(k), t), *sig, 'stq(o, glm::slerp(%s(a), %s(b), c[0], %d));' % (Q, Q, k))
    U.add('mix_' + t, *sig, 'stq(o, glm::mix(%s(a), %s(b), c[0]));' % (Q, Q))
    U.add('lerp_' + t, *sig, 'stq(o, glm::lerp(%s(a), %s(b), c[0]));' % (Q, Q))
    U.add('clerp1_' + t, [(c, 1), (c, 1), (c, 1)], [(c, 1)], 'o[0] = glm::lerp(a[0], b[0], c[0]);')
    U.add('clerp4_' + t, [(c, 4), (c, 4), (c, 1)], [(c, 4)], 'stv(o, glm::lerp(ldv<4,%s>(a), ldv<4,%s>(b), c[0]));' % (c, c))
    U.add('clerp3v_' + t, [(c, 3), (c, 3), (c, 3)], [(c, 3)], 'stv(o, glm::lerp(ldv<3,%s>(a), ldv<3,%s>(b), ldv<3,%s>(c)));' % (c, c, c))
    U.add('shortmix_' + t, *sig, 'stq(o, glm::shortMix(%s(a), %s(b), c[0]));' % (Q, Q))
    U.add('fastmix_' + t, *sig, 'stq(o, glm::fastMix(%s(a), %s(b), c[0]));' % (Q, Q))
    U.add('squad_' + t, [(c, 4), (c, 4), (c, 4), (c, 4), (c, 1)], [(c, 4)], 'stq(o, glm::squad(%s(a), %s(b), %s(c), %s(d), e[0]));' % (Q, Q, Q, Q))
    U.add('intermediate_' + t, [(c, 4)], [(c, 4)], 'auto q = %s(a); stq(o, glm::intermediate(q, q, q));' % Q)
    U.add('intermediate3_' + t, [(c, 4), (c, 4)], [(c, 4)], 'auto q = %s(a); auto d = %s(b); stq(o, glm::intermediate(glm::conjugate(d) * q, q, d * q));' % (Q, Q))
    U.add('qqinv_' + t, [(c, 4)], [(c, 4)], 'auto q = %s(a); stq(o, q * glm::inverse(q));' % Q)
    U.add('dqqinv_' + t, [(c, 4), (c, 4)], [(c, 8)], 'auto q = %s(a); auto d = %s(b); auto i = glm::inverse(q); stq(o, (d * q) * i); stq(o + 4, (glm::conjugate(d) * q) * i);' % (Q, Q))
    U.add('qexp_' + t, [(c, 4)], [(c, 4)], 'stq(o, glm::exp(%s(a)));' % Q)
    U.add('dqlerp_' + t, [(c, 8), (c, 8), (c, 1)], [(c, 8)],
          'glm::tdualquat<%s> x(%s(a), %s(a+4)), y(%s(b), %s(b+4)); auto r = glm::lerp(x, y, c[0]); stq(o, r.real); stq(o+4, r.dual);' % (c, Q, Q, Q, Q))
# the same wrappers under the two macros that change the quaternion memory order / the argument order of the 4-scalar constructor
CFG_UNITS = {'wxyz': U.clone('c13_wxyz', defines=['GLM_FORCE_QUAT_DATA_WXYZ']), 'xyzwctor': U.clone('c13_xyzwctor', defines=['GLM_FORCE_QUAT_DATA_XYZW'])}
def units(tier): return [U] + list(CFG_UNITS.values())
def under(u, job):
    """run a job of this module against another unit (every job runs in its own forked process, so rebinding the module global is local to it)"""
    def run(S):
        global U
        U = u; job(S)
    return run

# ------------------------------------------------------------------------------------------------ specification-side helpers (pure mathematics, nothing shared with glm)
def norm2(v):
    r = v[0] * v[0]
    for x in v[1:]: r = r + x * x
    return r
def dot(u, v):
    r = u[0] * v[0]
    for x, y in zip(u[1:], v[1:]): r = r + x * y
    return r
def unit(q): return norm2(q) == 1
def rv(x): return x.r if isinstance(x, RV) else x
def fr(x): return z3.RealVal(str(Fraction(x)))
EPS = {'f32': fr(2.0 ** -23), 'f64': fr(2.0 ** -52)}
ZERO, ONE = z3.RealVal(0), z3.RealVal(1)
TOL = {'f32': None, 'f64': 1e-10}      # relative tolerance of the numeric replay of the shape / blend goals (harness default for double, 1e-6, hides effects of the size of eps_float)
def is_num(t):
    t = z3.simplify(t); return z3.is_rational_value(t) or z3.is_algebraic_value(t) or z3.is_int_value(t)

class Trig:
    """sin/cos/acos/atan2/sqrt of specification terms: the executor's own table variable when symbolic (the link 'argument == specification term' is a separate obligation),
    the numeric libm value when a counterexample is replayed"""
    def __init__(s, ex): s.ex = ex
    def _f(s, fn, x):
        if is_num(x): return z3.RealVal(repr(getattr(math, fn)(float(z3val_to_fraction(x)))))
        return realtrig.trig_var(s.ex, fn, (x,))
    def sin(s, x): return s._f('sin', x)
    def cos(s, x): return s._f('cos', x)
    def pi(s, like): return z3.RealVal(repr(math.pi)) if is_num(like) else realtrig.real_pi(s.ex)
    def sqrt(s, k, X):
        if is_num(X): return z3.RealVal(repr(math.sqrt(max(0.0, float(z3val_to_fraction(X))))))
        log = getattr(s.ex, 'sqrt_log', [])
        return log[k][1] if k < len(log) else z3.Real('missing!sqrt%d' % k)       # the code executed no such call: unconstrained, the goals mentioning it fail and are replayed numerically
    def sqrt_arg(s, k, X):
        log = getattr(s.ex, 'sqrt_log', [])
        return X if is_num(X) else (log[k][0] if k < len(log) else z3.Real('missing!sqrtarg%d' % k))
    def _calls(s, fn):
        r = [(v, argt) for key, (v, argt) in getattr(s.ex, 'trig', {}).items() if key[0] == fn]
        return r + [(z3.Real('missing!%s%d' % (fn, j)), tuple(z3.Real('missing!%sarg%d_%d' % (fn, j, n)) for n in range(2))) for j in range(len(r), 4)]
    def inv(s, fn, k, *X):
        if all(is_num(x) for x in X):
            a = [float(z3val_to_fraction(x)) for x in X]
            if fn in ('acos', 'asin'): a = [max(-1.0, min(1.0, a[0]))]
            return z3.RealVal(repr(getattr(math, fn)(*a)))
        return s._calls(fn)[k][0]
    def inv_arg(s, fn, k, j, X): return X if is_num(X) else s._calls(fn)[k][1][j]

def mkex(unit_, mode, unwind):
    ex = Exec(unit_.module(), fmode='real' if mode == 'real' else 'fp', unwind=unwind)
    if mode == 'real':
        realtrig.map_pi_literals(ex); ex.trig_domain = True; ex.model_inputs_hook = realtrig.model_inputs_hook
        ex.real_nonfinite = 'oblige'      # an inf/NaN literal becomes an arbitrary real plus the side obligation that the block evaluating it is unreachable (quaternion log returns inf on one path)
    return ex
def gen_squares(t):
    """generalise: every product p*p of a compound term with itself becomes v*v for a fresh real v (one per distinct p) - sound for proving validity; makes 'sum of squares < 0' trivially unsatisfiable"""
    subs = {}; seen = set()
    def go(x):
        k = x.get_id()
        if k in seen: return
        seen.add(k)
        if z3.is_app(x) and x.decl().kind() == z3.Z3_OP_MUL and x.num_args() == 2 and x.arg(0).eq(x.arg(1)) and x.arg(0).num_args() > 0:
            v = z3.Real('sq!abs%d' % len(subs)); subs[k] = (x, v * v)
        for c in x.children(): go(c)
    go(t)
    return z3.substitute(t, *subs.values()) if subs else t
def chk(S, unit_, fn, spec, pre=None, setup=None, split_side=False, witness_at=None, gen_sq=False, **kw):
    """check_fn in real mode; spec(i, o, T) gets a Trig context bound to the executor that ran the code; setup(res, T) may instantiate true trigonometric facts on its table.
    split_side: the executor's side conditions (domains, traps) are discharged one by one (their disjunction is much harder than each; gen_sq: squares generalised) and a
    counterexample is reproduced when the native function returns NaN/inf;
    witness_at: the vacuity witness is sought at these input values (a free search for a model of all axioms can take long)"""
    box = {}
    def xh(res):
        box['T'] = Trig(res.ex); box['res'] = res
        return list(setup(res, box['T']) or []) if setup else []
    kw.setdefault('mode', 'real'); kw.setdefault('timeout', S.cap(40, 120)); kw.setdefault('solver', 'nra')
    if kw.get('mutant') is not None:
        mut = kw['mutant']; kw['mutant'] = lambda i, o: mut(i, o, box['T'])
    if split_side: kw['side'] = False
    if witness_at is not None: kw['witness'] = False
    res = S.check_fn(unit_, fn, lambda i, o: spec(i, o, box['T']), pre, extra_hyps=xh, ex=mkex, **kw)
    if res is None: return res
    name = kw.get('name') or '%s.%s' % (unit_.name, fn); fl = ['w_' + fn]
    p = pre(res.ins) if pre else []
    hy = list(p if isinstance(p, (list, tuple)) else [p]) + res.axioms
    if witness_at is not None:
        pin = [v == z3.RealVal(str(c)) for row, vals in zip(res.ins, witness_at) for v, c in zip(row, vals)]
        S.prove(name + '.witness', z3.BoolVal(False), hy + pin, timeout=S.cap(20, 60), solver='z3', kind='witness', functions=fl, expect='sat', mandatory=False, bounds='at ' + str(witness_at))
    if split_side:
        seen = {}
        for kind_, cond, d in res.obligations:
            c = gen_squares(cond) if gen_sq else cond
            if c.sexpr() in seen: continue
            seen[c.sexpr()] = 1
            oname = '%s.%s[%s]#%d' % (name, kind_, d[:60], len(seen))
            S.prove(oname, z3.Not(c), hy, timeout=kw['timeout'], solver=kw['solver'], kind=kind_, functions=fl, mandatory=kw.get('mandatory', True), bounds=kw.get('bounds', ''), replay=nan_replay(S, unit_, fn, res, oname))
    return res
def real_traps(S, unit_, fn, res, hy, name, bounds=''):
    """assert/trap side conditions of a rounding-erased execution, one query; a counterexample is replayed in a sanitizer subprocess (a failing assert would abort this process)"""
    tr = [cnd for kind_, cnd, d in res.obligations if kind_ in ('trap', 'unreachable')]
    if not tr: return
    f = unit_.fns[fn]; oname = name + '.trap-free'
    def replay(m):
        vals = S._model_inputs(m, res); bits = [[float_to_bits(float(v), ct_bits(c)) for v in row] for (c, n), row in zip(f.ins, vals)]
        return ub_replay(unit_, fn, bits, {'unit': unit_.name, 'fn': fn, 'obligation': oname, 'property': S.pid, 'inputs': [[str(v) for v in row] for row in vals]}, 'trap')
    S.prove(oname, z3.Not(z3.Or(*tr)), hy, timeout=S.cap(20, 60), solver='nra', kind='trap', functions=['w_' + fn], bounds=bounds, replay=replay)
def nan_replay(S, unit_, fn, res, oname):
    """a violated domain condition (division by zero, acos/sqrt outside its domain) is reproduced when the native function returns NaN or an infinity on the nearest floats"""
    def replay(m):
        vals = S._model_inputs(m, res); f = unit_.fns[fn]
        bits = [[float_to_bits(float(v), ct_bits(c)) for v in row] for (c, n), row in zip(f.ins, vals)]
        info = {'unit': unit_.name, 'fn': fn, 'obligation': oname, 'property': S.pid, 'inputs': [[str(v) for v in row] for row in vals]}
        for cxx in ('g++', 'clang++-14'):
            nat = unit_.call_native(fn, bits, cxx=cxx); info['native_out_' + cxx] = [[hex(v) for v in r] for r in nat]
            for (c, n), row in zip(f.outs, nat):
                for v in row:
                    d = bits_to_float(v, ct_bits(c))
                    if d != d or abs(d) == float('inf'):
                        info['note'] = 'native result is NaN/inf for finite inputs'; return 'reproduced', info
        return 'not-reproduced', info
    return replay

def chk_rw(S, fn, ins, pre, spec, inner, *, name=None, known=(), bounds='', mandatory=True, solver='nra', inner_solver=None, witness_at=None):
    """Nested calls that are out of reach monolithically.  Chain: (1) each inner call (fn2, ins2, want2, tag), executed on the same executor (same sqrt/trig tables), returns want2 - proved;
    (2) the (simplified) inner result terms are rewritten to those values inside the outer function's outputs, axioms and side conditions (sound: (1) holds under the same hypotheses; if the
    terms do not occur the rewrite is a no-op and the query is merely hard) and what remains is decided; side conditions one by one."""
    name = name or 'c13.' + fn; ex = mkex(U, 'real', 16); sub = []; to = S.cap(40, 120)
    fl = ['w_' + fn] + ['w_%s (inner call, same executor)' % f2 for f2 in sorted({x[0] for x in inner})]
    for f2, ins2, want2, tag in inner:
        rr = sym_call(U, f2, ins=ins2, mode='real', ex=ex)
        for j, wv in enumerate(want2):
            S.prove('%s.inner %s[%d]' % (name, tag, j), rr.outs[0][j].r == wv, list(pre) + rr.axioms, timeout=to, solver=inner_solver or solver, kind='spec', functions=fl, bounds=bounds, mandatory=mandatory,
                    replay=lambda m: ('no-replay', {'note': 'inner link of a rewrite chain; the outer obligation is the one replayed natively'}))
            sub.append((z3.simplify(rr.outs[0][j].r), wv))
    n_inner = len(ex.obligations)
    r = sym_call(U, fn, ins=ins, mode='real', ex=ex)
    rw = lambda x: z3.simplify(z3.substitute(z3.simplify(x), *sub))
    hy = list(pre) + [rw(a) for a in r.axioms]
    if witness_at is not None:
        pin = [v == z3.RealVal(str(c)) for row, vals in zip(r.ins, witness_at) for v, c in zip(row, vals) if not is_num(v)]
        S.prove(name + '.witness', z3.BoolVal(False), hy + pin, timeout=S.cap(20, 60), solver='z3', kind='witness', functions=fl, expect='sat', mandatory=False, bounds='at ' + str(witness_at))
    T = Trig(ex); spec_T = lambda i, o: spec(i, o, T)
    o2 = [[RV(v.n, rw(v.r)) for v in row] for row in r.outs]
    allvars = [v for row in r.ins for v in row]
    for label, g in spec(r.ins, o2, T):
        S._prove_known('%s.%s' % (name, label), goal_term(g), hy, r, known, timeout=to, solver=solver, kind='spec', functions=fl, bounds=bounds, spec_fn=(spec_T, label), pre_fn=None,
                       unit=U, fname=fn, mode='real', vars_=allvars, mandatory=mandatory)
    seen = {}
    for kind_, cond, d in r.obligations[n_inner:]:
        c = rw(cond)
        if z3.is_false(c) or c.sexpr() in seen: continue
        seen[c.sexpr()] = 1
        S.prove('%s.%s[%s]#%d' % (name, kind_, d[:60], len(seen)), z3.Not(c), hy, timeout=to, solver=solver, kind=kind_, functions=fl, bounds=bounds, mandatory=mandatory, replay=lambda m: ('no-replay', {}))
    return r

# ------------------------------------------------------------------------------------------------ the arc: specification-side names of the scalars
def arc(i, T, kind='slerp', k=None):
    """theta = acos<x,z> (shortMix: atan2(sqrt(1-<x,z>^2), <x,z>)), u = t*theta (or t*(theta+k*pi)); the scalars the lemmas talk about"""
    x, y, t = i[0], i[1], i[2][0]
    c0 = dot(x, y); flip_allowed = kind != 'mix'
    flip = (c0 < 0) if flip_allowed else z3.BoolVal(False)
    z = [z3.If(flip, -b, b) for b in y] if flip_allowed else list(y)
    C = z3.If(flip, -c0, c0) if flip_allowed else c0
    A = dict(x=x, y=y, z=z, t=t, C=C, flip=flip)
    if kind == 'short':
        A['X'] = 1 - C * C; A['R'] = T.sqrt(0, A['X']); th = T.inv('atan2', 0, A['R'], C)
    else:
        th = T.inv('acos', 0, C)
    u = t * th if k is None else t * (th + k * T.pi(th))
    A.update(th=th, u=u, S=T.sin(th), Cth=T.cos(th), su=T.sin(u), cu=T.cos(u), s1=T.sin(th - u), c1=T.cos(th - u))
    return A

def arc_setup(res, T, kind='slerp', k=None):
    """instantiate the addition formula for (theta) + (-u) on the executor's table (true facts of sin/cos)"""
    t = res.ins[2][0]; th = T._calls('atan2' if kind == 'short' else 'acos')[0][0]
    u = t * th if k is None else t * (th + k * realtrig.real_pi(res.ex))
    realtrig.trig_sum(res.ex, th, -u)
    return []

def arc_goals(A, out, g0, g1, tol=None):
    """code links shared by slerp / mix / spins / shortMix; g0: guard of the arc branch, g1: guard of the linear fallback"""
    g = [('sin(theta)>0', RGoal('gt', A['S'], ZERO, g0)), ('cos(theta)==<x,z>', RGoal('eq', A['Cth'], A['C'], g0)),
         ('sin(theta-u)==S*cu-C*su', RGoal('eq', A['s1'], A['S'] * A['cu'] - A['Cth'] * A['su'], g0)), ('cos(theta-u)==C*cu+S*su', RGoal('eq', A['c1'], A['Cth'] * A['cu'] + A['S'] * A['su'], g0))]
    g += [('shape[%d]: out*sin(theta)==sin(theta-u)*x+sin(u)*z' % j, RGoal('eq', out[j] * A['S'], A['s1'] * A['x'][j] + A['su'] * A['z'][j], g0, tol)) for j in range(4)]
    g += [('fallback[%d]: out==x*(1-t)+z*t' % j, RGoal('eq', out[j], A['x'][j] * (1 - A['t']) + A['z'][j] * A['t'], g1, tol)) for j in range(4)]
    return g

def job_slerp(t, fn='slerp', kind='slerp', k=None):
    """code links of the chain for slerp / slerp with spin count / mix, and the end points"""
    eps = EPS[t]
    def run(S):
        name = fn + '_' + t
        pre = (lambda i: [dot(i[0], i[1]) > -1]) if kind == 'mix' else None
        def spec(i, o, T):
            A = arc(i, T, kind, k); out = [rv(v) for v in o[0]]
            fb = A['C'] > 1 - eps; nf = z3.Not(fb)
            g = [('acos.arg==<x,z>', RGoal('eq', T.inv_arg('acos', 0, 0, A['C']), A['C'], nf))] + arc_goals(A, out, nf, fb, TOL[t])
            if kind != 'mix': g.append(('short-arc: theta<=pi/2', RGoal('le', 2 * A['th'], T.pi(A['th']), nf)))
            return g
        def mutant(i, o, T):      # deliberately wrong specifications that must be refutable (thorough tier)
            A = arc(i, T, kind, k); out = [rv(v) for v in o[0]]; nf = z3.Not(A['C'] > 1 - eps)
            return [('shape with the weights swapped', RGoal('eq', out[0] * A['S'], A['su'] * A['x'][0] + A['s1'] * A['z'][0], nf)),
                    ('shape with -z', RGoal('eq', out[1] * A['S'], A['s1'] * A['x'][1] - A['su'] * A['z'][1], nf)),
                    ('fallback on the arc branch', RGoal('eq', out[2], A['x'][2] * (1 - A['t']) + A['z'][2] * A['t'], nf))]
        chk(S, U, name, spec, pre, setup=lambda res, T: arc_setup(res, T, kind, k), mutant=mutant, split_side=True,
            bounds='all real quaternions x, y%s; every real t; chain link (code): shape of the result and the trig facts used by lemmas.*' % (' with <x,y> > -1' if kind == 'mix' else ''))
        # end points: t = 0 and t = 1 as separate executions of the same code with the literal factor
        for tv in (0, 1):
            def spec_e(i, o, T, tv=tv):
                x, y = i[0], i[1]; c0 = dot(x, y); out = [rv(v) for v in o[0]]
                fl = (c0 < 0) if kind != 'mix' else z3.BoolVal(False)
                z = [z3.If(fl, -b, b) for b in y]; C = z3.If(fl, -c0, c0); fb = C > 1 - eps
                if tv == 0: return [('t=0[%d]: out==x' % j, REq(out[j], x[j])) for j in range(4)]
                sgn = 1 if (k is None or k % 2 == 0) else -1
                if sgn == 1: return [('t=1[%d]: out==z' % j, REq(out[j], z[j])) for j in range(4)]
                return ([('t=1[%d]: out==(-1)^k z (arc branch)' % j, RGoal('eq', out[j], -z[j], z3.Not(fb))) for j in range(4)]
                        + [('t=1.fallback[%d]: out==z' % j, RGoal('eq', out[j], z[j], fb)) for j in range(4)])
            x_, y_ = [z3.Real('a%d' % j) for j in range(4)], [z3.Real('b%d' % j) for j in range(4)]
            chk(S, U, name, spec_e, pre, ins=[x_, y_, [z3.RealVal(tv)]], name='c13.%s.t=%d' % (name, tv), split_side=True,
                bounds='all real quaternions x, y%s; t = %d: result is %s' % (' with <x,y> > -1' if kind == 'mix' else '', tv, 'x' if tv == 0 else
                       ('y' if kind == 'mix' else 'z = +-y, the representative with <x,z> >= 0%s' % (' (times (-1)^k on the arc branch: theta+k*pi is the angle travelled)' if k is not None else ''))))
    return run

def job_symmetry(t, fn='slerp', k=None):
    w = 32 if t == 'f32' else 64; odd = k is not None and k % 2 != 0
    def run(S):
        name = fn + '_' + t
        ex = mkex(U, 'real', 16)
        r1 = sym_call(U, name, mode='real', ex=ex); x, y, tt = r1.ins[0], r1.ins[1], r1.ins[2][0]
        r2 = sym_call(U, name, ins=[y, x, [1 - tt]], mode='real', ex=ex)
        c0 = dot(x, y); flip = c0 < 0
        fb = z3.If(flip, -c0, c0) > 1 - EPS[t]
        def mk_replay(j, oname, goal):
            def replay(m):
                v, info = replay1(m)
                if v == 'reproduced': return v, info
                # the first model is often degenerate (zero quaternions, inconsistent Ackermannised angles): ask for a counterexample among unit quaternions in general position
                nice = [unit(x), unit(y), tt > z3.RealVal('1/10'), tt < z3.RealVal('9/10'), c0 * c0 > z3.RealVal('1/100'), c0 * c0 < z3.RealVal('81/100')]
                r_, m2, _, _ = S.query(nice + r1.axioms + [z3.Not(goal)], 30, 'z3')
                if r_ == 'sat':
                    v2, info2 = replay1(m2)
                    if v2 == 'reproduced': return v2, info2
                return v, info
            def replay1(m):       # native: slerp(x,y,t) against slerp(y,x,1-t) on the nearest floats
                vals = S._model_inputs(m, r1); fl = [[float(v) for v in row] for row in vals]
                bits = [[float_to_bits(v, w) for v in row] for row in fl]
                xs, ys = [bits_to_float(b, w) for b in bits[0]], [bits_to_float(b, w) for b in bits[1]]; tv = bits_to_float(bits[2][0], w)
                n1 = U.call_native(name, bits); n2 = U.call_native(name, [bits[1], bits[0], [float_to_bits(1.0 - tv, w)]])
                a, b = bits_to_float(n1[0][j], w), bits_to_float(n2[0][j], w); d = sum(p * q for p, q in zip(xs, ys))
                info = {'unit': U.name, 'fn': name, 'obligation': oname, 'property': S.pid, 'inputs': [[str(v) for v in row] for row in vals], 'native_slerp(x,y,t)': [hex(v) for v in n1[0]],
                        'native_slerp(y,x,1-t)': [hex(v) for v in n2[0]], 'pin_name': oname}
                if a != a or b != b or abs(a) == float('inf') or abs(b) == float('inf'): return 'not-reproduced', info
                if odd and abs(d) > 1 - float(Fraction(str(EPS[t]))): return 'not-reproduced', info
                sg = (-1.0 if d < 0 else 1.0) * (-1.0 if odd else 1.0); tol = 2e-3 if w == 32 else 1e-6
                return ('reproduced' if abs(a - sg * b) > tol * max(1.0, abs(a), abs(b)) else 'not-reproduced'), info
            return replay
        for j in range(4):
            a, b = r1.outs[0][j].r, r2.outs[0][j].r
            if not odd:
                oname = 'c13.%s.symmetry[%d]: slerp(x,y,t) == sign(<x,y>) slerp(y,x,1-t)' % (name, j); goal = a == z3.If(flip, -b, b)
                S.prove(oname, goal, r1.axioms, timeout=S.cap(40, 120), solver='nra', kind='spec', replay=mk_replay(j, oname, goal),
                        mandatory=True, functions=['w_' + name + ' (two executions sharing the trig table)'], bounds='all real quaternions x, y (either sign of <x,y>, both branches); every real t')
            else:
                oname = 'c13.%s.symmetry[%d]: slerp(x,y,t,k) == -sign(<x,y>) slerp(y,x,1-t,k) (arc branch, k odd)' % (name, j)
                goal = z3.Implies(z3.Not(fb), a == z3.If(flip, b, -b))
                S.prove(oname, goal, r1.axioms, timeout=S.cap(40, 120), replay=mk_replay(j, oname, goal),
                        solver='nra', kind='spec', mandatory=True, functions=['w_' + name + ' (two executions sharing the trig table)'], bounds='all real quaternions x, y; every real t')
                oname = 'c13.%s.symmetry.fallback[%d]: slerp(x,y,t,k) == sign(<x,y>) slerp(y,x,1-t,k) (linear branch)' % (name, j); goal = z3.Implies(fb, a == z3.If(flip, -b, b))
                S.prove(oname, goal, r1.axioms, timeout=S.cap(40, 120), replay=lambda m: ('no-replay', {}),
                        solver='nra', kind='spec', mandatory=True, functions=['w_' + name + ' (two executions sharing the trig table)'], bounds='all real quaternions x, y; every real t')
    return run

def job_lemmas(S):
    """code-free links: scalar and bilinear lemmas.  Together with the code links they give |out| = 1, <x,out> = cos(u), <z,out> = cos(theta-u)."""
    P = lambda n, g, h=(): S.prove('c13.lemmas.' + n, g, list(h), timeout=S.cap(30, 90), solver='nra', kind='lemma', functions=['(specification-side lemma)'])
    x = list(z3.Reals('x0 x1 x2 x3')); z = list(z3.Reals('z0 z1 z2 z3')); a, b = z3.Reals('a b')
    out = [a * p + b * q for p, q in zip(x, z)]
    P('bilinear.norm: |a x + b z|^2 == a^2|x|^2 + 2ab<x,z> + b^2|z|^2', norm2(out) == a * a * norm2(x) + 2 * a * b * dot(x, z) + b * b * norm2(z))
    P('bilinear.dotx: <x, a x + b z> == a|x|^2 + b<x,z>', dot(x, out) == a * norm2(x) + b * dot(x, z))
    P('bilinear.dotz: <z, a x + b z> == a<x,z> + b|z|^2', dot(z, out) == a * dot(x, z) + b * norm2(z))
    P('bilinear.scale: |s o|^2 == s^2 |o|^2', norm2([a * p for p in x]) == a * a * norm2(x))
    P('bilinear.scale.dot: <x, s o> == s <x, o>', dot(x, [a * q for q in z]) == a * dot(x, z))
    Sn, C, su, cu, s1, N, D, nx, nz, d = z3.Reals('S C su cu s1 N D nx nz d')
    trig = [Sn * Sn + C * C == 1, su * su + cu * cu == 1, s1 == Sn * cu - C * su]
    P('scalar.norm: s1^2 + 2 s1 su C + su^2 == S^2', s1 * s1 + 2 * s1 * su * C + su * su == Sn * Sn, trig)
    P('scalar.dotx: s1 + su C == S cu', s1 + su * C == Sn * cu, trig)
    P('scalar.dotz: s1 C + su == S (C cu + S su)', s1 * C + su == Sn * (C * cu + Sn * su), trig)
    P('glue.norm: |out|^2 == 1', N == 1, [N * Sn * Sn == s1 * s1 * nx + 2 * s1 * su * d + su * su * nz, nx == 1, nz == 1, d == C, s1 * s1 + 2 * s1 * su * C + su * su == Sn * Sn, Sn > 0])
    P('glue.dotx: <x,out> == cos(u)', D == cu, [D * Sn == s1 * nx + su * d, nx == 1, d == C, s1 + su * C == Sn * cu, Sn > 0])
    P('glue.dotz: <z,out> == cos(theta-u)', D == C * cu + Sn * su, [D * Sn == s1 * d + su * nz, nz == 1, d == C, s1 * C + su == Sn * (C * cu + Sn * su), Sn > 0])
    # z = +-y: |z| = |y|, <x,z> = |<x,y>| >= 0 (short arc: theta <= pi/2)
    y = list(z3.Reals('y0 y1 y2 y3')); f = z3.Bool('flip'); zz = [z3.If(f, -v, v) for v in y]
    P('flip.norm: |+-y| == |y|', norm2(zz) == norm2(y)); P('flip.dot: <x,+-y> == +-<x,y>', dot(x, zz) == z3.If(f, -dot(x, y), dot(x, y)))
    P('short-arc: <x,z> >= 0 for z = (<x,y> < 0 ? -y : y)', z3.If(d < 0, -d, d) >= 0)
    # fallback branch: affine blend of unit quaternions with <x,z> = C: |r|^2 - 1 == -2 t (1-t) (1-C), within [-eps/2, 12 eps] for t in [-2,3]
    tt, e = z3.Reals('t e'); bl = [p * (1 - tt) + q * tt for p, q in zip(x, z)]
    P('fallback.norm: |x(1-t)+z t|^2 - 1 == -2t(1-t)(1-<x,z>)', norm2(bl) - 1 == -2 * tt * (1 - tt) * (1 - dot(x, z)), [norm2(x) == 1, norm2(z) == 1])
    hb = [N - 1 == -2 * tt * (1 - tt) * (1 - C), C > 1 - e, C <= 1, e > 0, tt >= -2, tt <= 3]
    P('fallback.norm.upper: |r|^2 - 1 <= 12 eps (t in [-2,3])', N - 1 <= 12 * e, hb)
    P('fallback.norm.lower: |r|^2 - 1 >= -eps/2 (t in [-2,3])', 2 * (N - 1) >= -e, hb)
    P('cauchy-schwarz.sumsq: |v|^2 >= 0', norm2(x) >= 0)
    P('cauchy-schwarz.glue: |x-z|^2 == 2 - 2<x,z>, |x-z|^2 >= 0 -> <x,z> <= 1', d <= 1, [N == 2 - 2 * d, N >= 0])
    P('cauchy-schwarz.expand: |x-z|^2 == 2 - 2<x,z> for unit x, z', norm2([p - q for p, q in zip(x, z)]) == 2 - 2 * dot(x, z), [norm2(x) == 1, norm2(z) == 1])
    # normalised blend (fastMix): out*L == r, L^2 == |r|^2, L > 0  ->  |out| = 1
    L, B = z3.Reals('L B')
    P('nlerp.norm: |out|^2 == 1', N == 1, [N * L * L == B, L * L == B, L > 0])

# ------------------------------------------------------------------------------------------------ lerp
def canon_fp(t, memo):
    """sort the operands of IEEE add/mul (commutative; SMT-LIB FP has a single NaN) so that clang's operand order does not matter; memo keeps the keyed terms alive"""
    def go(x):
        k = x.get_id()
        if k in memo: return memo[k][1]
        ch = x.children()
        if ch:
            nc = [go(c) for c in ch]
            if z3.is_app(x) and x.decl().kind() in (z3.Z3_OP_FPA_ADD, z3.Z3_OP_FPA_MUL) and len(nc) == 3 and nc[1].get_id() > nc[2].get_id(): nc = [nc[0], nc[2], nc[1]]
            r = x.decl()(*nc) if not all(p.eq(q) for p, q in zip(nc, ch)) else x
        else: r = x
        memo[k] = (x, r); return r
    return go(t)

def job_lerp(t):
    w = 32 if t == 'f32' else 64
    def run(S):
        one = FPV(1.0, w); name = 'lerp_' + t
        # [fp] bit-exact: the compiled term and the documented expression, operands of + and * sorted
        res = sym_call(U, name, mode='fp'); i, o = res.ins, res.outs
        a = fpof(i[2][0]); om = z3.fpSub(RNE, one, a); memo = {}
        rng = [z3.fpGEQ(a, FPV(0.0, w)), z3.fpLEQ(a, one)]
        fl = ['w_' + name]
        S.prove('c13.%s.witness' % name, z3.BoolVal(False), rng, timeout=S.cap(20, 60), kind='witness', expect='sat', mandatory=False, functions=fl)
        try:
            ncmp, bad = validate_translation(res, S.rnd, 4 if S.quick else 12, pre=z3.And(*rng)); S.validated += ncmp
            if bad: S.engine_errors.append('c13.%s: symbolic term disagrees with native execution: %s' % (name, json.dumps(bad[0])))
        except Exception as e:
            S.rec(name='c13.%s.validate' % name, kind='validate', result='error', status='skipped', note=str(e)[:300], mandatory=False)
        def spec_fp(i_, o_):
            a_ = fpof(i_[2][0]); om_ = z3.fpSub(RNE, one, a_); mm = {}
            return [('lerp[%d] == x*(1-a) + y*a (IEEE)' % j, canon_fp(fpv_of(o_[0][j]), mm) == canon_fp(z3.fpAdd(RNE, z3.fpMul(RNE, fpof(i_[0][j]), om_), z3.fpMul(RNE, fpof(i_[1][j]), a_)), mm)) for j in range(4)]
        for label, g in spec_fp(i, o):
            oname = 'c13.%s.%s' % (name, label)
            S.prove(oname, g, rng, timeout=S.cap(30, 90), kind='spec', functions=fl, replay=S._replayer(res, (spec_fp, label), None, U, name, 'fp', oname), vars_=[v for row in i for v in row],
                    bounds='all bit patterns of x, y; 0 <= a <= 1 (the asserted range); result bit-identical (one NaN) to the documented expression')
        traps = [cnd for kind_, cnd, d in res.obligations if kind_ in ('trap', 'unreachable')]
        oname = 'c13.%s.trap-free on 0<=a<=1' % name
        S.prove(oname, z3.Not(z3.Or(*traps)) if traps else z3.BoolVal(True), rng, timeout=S.cap(20, 60), kind='trap', functions=fl, bounds='all bit patterns of x, y; 0 <= a <= 1',
                replay=S._replayer(res, None, None, U, name, 'fp', oname, side_kind='trap'), vars_=[v for row in i for v in row])
        other = [cnd for kind_, cnd, d in res.obligations if kind_ not in ('trap', 'unreachable')]
        if other: S.prove('c13.%s.no-ub' % name, z3.Not(z3.Or(*other)), rng, timeout=S.cap(20, 60), kind='ub', functions=fl)
        # the asserts are live: outside [0,1] (and for NaN) a trap is reachable
        tr = [cnd for kind_, cnd, d in res.obligations if kind_ == 'trap']
        for lab, hy in (('a>1', z3.fpGT(a, one)), ('a<0', z3.fpLT(a, FPV(0.0, w))), ('a NaN', z3.fpIsNaN(a))):
            S.prove('c13.%s.assert-live(%s)' % (name, lab), z3.Not(z3.Or(*tr)) if tr else z3.BoolVal(True), [hy], timeout=S.cap(20, 60), kind='mutant-twin', expect='sat', mandatory=False, functions=fl)
        # [real] the same expression with rounding erased (a wrong blend is then reported with a replayable counterexample)
        pre_r = lambda i: [i[2][0] >= 0, i[2][0] <= 1]
        def spec_r(i, o, T):
            x, y, a_ = i[0], i[1], i[2][0]
            return [('lerp[%d] == x*(1-a) + y*a (exact)' % j, REq(rv(o[0][j]), x[j] * (1 - a_) + y[j] * a_)) for j in range(4)]
        chk(S, U, name, spec_r, pre_r, name='c13.%s.real' % name, bounds='all real quaternions, 0 <= a <= 1 (asserted range; the traps are decided bit-precisely above); rounding-erased', side=False,
            mutant=lambda i, o, T: [('weights swapped', REq(rv(o[0][0]), i[0][0] * i[2][0] + i[1][0] * (1 - i[2][0])))])
        # gtx/compatibility lerp (scalar, vector with scalar and with vector factor): documented as x*(1-a) + y*a for every a
        for cf, n, vecfac in (('clerp1', 1, False), ('clerp4', 4, False), ('clerp3v', 3, True)):
            cname = '%s_%s' % (cf, t); r2 = sym_call(U, cname, mode='fp'); mm = {}
            try:
                ncmp, bad = validate_translation(r2, S.rnd, 4 if S.quick else 12); S.validated += ncmp
                if bad: S.engine_errors.append('c13.%s: symbolic term disagrees with native execution: %s' % (cname, json.dumps(bad[0])))
            except Exception as e:
                S.rec(name='c13.%s.validate' % cname, kind='validate', result='error', status='skipped', note=str(e)[:300], mandatory=False)
            def spec_c(i_, o_, n=n, vecfac=vecfac):
                m2 = {}; g = []
                for j in range(n):
                    a_ = fpof(i_[2][j if vecfac else 0])
                    g.append(('compat.lerp[%d] == x*(1-a) + y*a (IEEE)' % j, canon_fp(fpv_of(o_[0][j]), m2) == canon_fp(z3.fpAdd(RNE, z3.fpMul(RNE, fpof(i_[0][j]), z3.fpSub(RNE, one, a_)), z3.fpMul(RNE, fpof(i_[1][j]), a_)), m2)))
                return g
            for label, g in spec_c(r2.ins, r2.outs):
                oname = 'c13.%s.%s' % (cname, label)
                S.prove(oname, g, [], timeout=S.cap(30, 90), kind='spec', functions=['w_' + cname], replay=S._replayer(r2, (spec_c, label), None, U, cname, 'fp', oname), vars_=[v for row in r2.ins for v in row],
                        bounds='all bit patterns of x, y, a; result bit-identical (one NaN) to the documented expression')
            ub = [cnd for kind_, cnd, d in r2.obligations]
            if ub: S.prove('c13.%s.no-trap/ub' % cname, z3.Not(z3.Or(*ub)), [], timeout=S.cap(20, 60), kind='ub', functions=['w_' + cname])
            def spec_cr(i, o, T, n=n, vecfac=vecfac):
                return [('compat.lerp[%d] == x*(1-a) + y*a (exact)' % j, REq(rv(o[0][j]), i[0][j] * (1 - i[2][j if vecfac else 0]) + i[1][j] * i[2][j if vecfac else 0])) for j in range(n)]
            chk(S, U, cname, spec_cr, None, name='c13.%s.real' % cname, bounds='all reals; rounding-erased')
    return run

def job_dqlerp(t):
    def run(S):
        # dual-quaternion linear blend: x*(1-a) + y*(+-a), sign by <x.real, y.real>; end points
        def pre_d(i): return [i[2][0] >= 0, i[2][0] <= 1]
        def spec_d(i, o, T):
            x, y, a = i[0], i[1], i[2][0]; kk = z3.If(dot(x[:4], y[:4]) < 0, -a, a)
            return [('dualquat.lerp[%d] == x*(1-a) + y*(+-a)' % j, REq(rv(o[0][j]), x[j] * (1 - a) + y[j] * kk)) for j in range(8)]
        rd = chk(S, U, 'dqlerp_' + t, spec_d, pre_d, bounds='all dual quaternions, 0 <= a <= 1 (asserted range); rounding-erased', side=False,
                 mutant=lambda i, o, T: [('no sign choice', REq(rv(o[0][5]), i[0][5] * (1 - i[2][0]) + i[1][5] * i[2][0]))])
        if rd is not None: real_traps(S, U, 'dqlerp_' + t, rd, pre_d(rd.ins) + rd.axioms, 'c13.dqlerp_' + t, bounds='all dual quaternions, 0 <= a <= 1: the asserts cannot fire')
        for tv in (0, 1):
            def spec_de(i, o, T, tv=tv):
                x, y = i[0], i[1]; sg = z3.If(dot(x[:4], y[:4]) < 0, -ONE, ONE)
                return [('dualquat.lerp.t=%d[%d]' % (tv, j), REq(rv(o[0][j]), x[j] if tv == 0 else y[j] * sg)) for j in range(8)]
            chk(S, U, 'dqlerp_' + t, spec_de, None, side=False, ins=[[z3.Real('a%d' % j) for j in range(8)], [z3.Real('b%d' % j) for j in range(8)], [z3.RealVal(tv)]], name='c13.dqlerp_%s.t=%d' % (t, tv),
                bounds='a = %d: result is %s' % (tv, 'x' if tv == 0 else '+-y (sign of <x.real,y.real>)'))
        # the asserts are live
        res = sym_call(U, 'dqlerp_' + t, mode='real', ex=mkex(U, 'real', 16)); a = res.ins[2][0]
        tr = [cnd for kind_, cnd, d in res.obligations if kind_ == 'trap']
        for lab, hy in (('a>1', a > 1), ('a<0', a < 0)):
            S.prove('c13.dqlerp_%s.assert-live(%s)' % (t, lab), z3.Not(z3.Or(*tr)) if tr else z3.BoolVal(True), [hy] + res.axioms, timeout=S.cap(20, 60), solver='nra', kind='mutant-twin', expect='sat', mandatory=False, functions=['w_dqlerp_' + t])
    return run

# ------------------------------------------------------------------------------------------------ gtx: shortMix, fastMix, squad
def job_shortmix(t):
    eps = EPS[t]
    def run(S):
        name = 'shortmix_' + t
        def spec(i, o, T):
            A = arc(i, T, 'short'); out = [rv(v) for v in o[0]]; a = A['t']
            lo, hi = a <= 0, a >= 1; mid = z3.And(a > 0, a < 1)
            fb = z3.And(mid, A['C'] > 1 - eps); nf = z3.And(mid, z3.Not(A['C'] > 1 - eps))
            g = [('a<=0[%d]: out==x' % j, RGoal('eq', out[j], A['x'][j], lo)) for j in range(4)]
            g += [('a>=1[%d]: out==y' % j, RGoal('eq', out[j], A['y'][j], z3.And(z3.Not(lo), hi))) for j in range(4)]
            g += [('sqrt.arg==1-<x,z>^2', RGoal('eq', T.sqrt_arg(0, A['X']), A['X'], nf)), ('sqrt>0', RGoal('gt', A['R'], ZERO, nf)),
                  ('atan2.y==sqrt(1-<x,z>^2)', RGoal('eq', T.inv_arg('atan2', 0, 0, A['R']), A['R'], nf)), ('atan2.x==<x,z>', RGoal('eq', T.inv_arg('atan2', 0, 1, A['C']), A['C'], nf)),
                  ('sin(theta)==sqrt(1-<x,z>^2)', RGoal('eq', A['S'], A['R'], nf))]
            return g + arc_goals(A, out, nf, fb, TOL[t])
        chk(S, U, name, spec, None, setup=lambda res, T: arc_setup(res, T, 'short'), split_side=True,
            bounds='all real quaternions x, y; every real a (a <= 0 -> x, a >= 1 -> y, else the slerp shape with theta = atan2(sqrt(1-c^2), c) resp. the affine blend above the threshold)')
    return run

def job_fastmix(t):
    def run(S):
        name = 'fastmix_' + t
        def blend(i): return [p * (1 - i[2][0]) + q * i[2][0] for p, q in zip(i[0], i[1])]
        def spec(i, o, T):
            r = blend(i); X = norm2(r); L = T.sqrt(0, X); out = [rv(v) for v in o[0]]; nz = X > 0
            g = [('sqrt.arg==|x(1-a)+y a|^2', REq(T.sqrt_arg(0, X), X)), ('len>0', RGoal('gt', L, ZERO, nz))]
            g += [('shape[%d]: out*len==x(1-a)+y a' % j, RGoal('eq', out[j] * L, r[j], nz)) for j in range(4)]
            g += [('zero-blend[%d]: identity' % j, RGoal('eq', out[j], ONE if j == 0 else ZERO, z3.Not(nz))) for j in range(4)]
            return g
        chk(S, U, name, spec, None, bounds='all real quaternions x, y, every real a: out = blend/|blend| (identity quaternion for a zero blend); with lemmas.nlerp.norm: unit length',
            mutant=lambda i, o, T: [('not normalised', REq(rv(o[0][0]), blend(i)[0]))])
        for tv in (0, 1):
            def spec_e(i, o, T, tv=tv): return [('t=%d[%d]: out==%s' % (tv, j, 'xy'[tv]), REq(rv(o[0][j]), i[tv][j])) for j in range(4)]
            x_, y_ = [z3.Real('a%d' % j) for j in range(4)], [z3.Real('b%d' % j) for j in range(4)]
            chk(S, U, name, spec_e, lambda i, tv=tv: [unit(i[tv])], ins=[x_, y_, [z3.RealVal(tv)]], name='c13.%s.t=%d' % (name, tv), bounds='unit %s; a = %d' % ('xy'[tv], tv))
    return run

def job_squad(t):
    """squad(q1,q2,s1,s2,h) = mix(mix(q1,q2,h), mix(s1,s2,h), 2h(1-h)) at h = 0 / 1: the inner mix calls return q1, s1 resp. q2, s2; the outer mix at factor 0 returns its first argument"""
    def run(S):
        for hv in (0, 1):
            q = [[z3.Real('%s%d' % (n, j)) for j in range(4)] for n in 'abcd']; H = [z3.RealVal(hv)]
            pre = [dot(q[0], q[1]) > -1, dot(q[2], q[3]) > -1, dot(q[hv], q[2 + hv]) > -1]
            chk_rw(S, 'squad_' + t, q + [H], pre, lambda i, o, T, hv=hv: [('h=%d[%d]: out==q%d' % (hv, j, hv + 1), REq(rv(o[0][j]), i[hv][j])) for j in range(4)],
                   [('mix_' + t, [q[0], q[1], H], q[hv], 'mix(q1,q2,h)==q%d' % (hv + 1)), ('mix_' + t, [q[2], q[3], H], q[2 + hv], 'mix(s1,s2,h)==s%d' % (hv + 1))], name='c13.squad_%s.h=%d' % (t, hv),
                   bounds='all real quaternions inside the domain of the three mix calls (<q1,q2>, <s1,s2>, <q%d,s%d> > -1); h = %d' % (hv + 1, hv + 1, hv), witness_at=[[1, 0, 0, 0]] * 4 + [[hv]])
    return run

KF_INT, KF_EXP = 'KF-C13-intermediate-zero', 'KF-C13-quat-exp-zero-angle'
REGIONS = {'all': lambda res, i: norm2(res.ins[0]) >= 0,        # (every input; written over the inputs because the 'nra' front end drops variable-free hypotheses)
           'exp_small': lambda res, i: norm2(res.ins[0][1:]) < EPS[res.fn.name[-3:]] * EPS[res.fn.name[-3:]]}
def job_intermediate(t):
    """gtx intermediate (squad control point) and the quaternion exponential it is built on.  When the three key frames coincide - more generally when prev = d^-1 curr and next = d curr are
    equally spaced on one geodesic (d unit, d.w > 0) - the two logarithms cancel and the control point is curr itself (every convention for the squad tangent agrees on this).
    exp(q) has the documented shape (cos|v|, sin|v| v/|v|) and must be within eps of the identity below its small-angle threshold.  log() of real numbers is uninterpreted (no fact needed);
    the infinity literals returned by the quaternion log for the zero quaternion are shown unreachable."""
    eps = EPS[t]
    def run(S):
        q = [z3.Real('a%d' % j) for j in range(4)]; d = [z3.Real('b%d' % j) for j in range(4)]; I4 = [ONE, ZERO, ZERO, ZERO]
        chk_rw(S, 'intermediate_' + t, [q], [norm2(q) > 0], lambda i, o, T: [('intermediate(q,q,q)[%d]==q' % j, REq(rv(o[0][j]), i[0][j])) for j in range(4)],
               [('qqinv_' + t, [q], I4, 'q*inverse(q)==1')], known=[KF_INT], inner_solver='qfnra', witness_at=[[1, 0, 0, 0]], bounds='all non-zero q; log/exp of real numbers uninterpreted')
        dc = [d[0], -d[1], -d[2], -d[3]]
        if not S.quick: chk_rw(S, 'intermediate3_' + t, [q, d], [norm2(q) > 0, unit(d), d[0] > 0], lambda i, o, T: [('intermediate(d^-1 q,q,d q)[%d]==q' % j, REq(rv(o[0][j]), i[0][j])) for j in range(4)],
               [('dqqinv_' + t, [q, d], d + dc, '(d q) q^-1 == d, (d* q) q^-1 == d*')], known=[KF_INT], inner_solver='qfnra', witness_at=[[1, 0, 0, 0], [1, 0, 0, 0]], mandatory=False,
               bounds='all non-zero q, unit d with d.w > 0 (key frames equally spaced on a geodesic, less than pi apart)')
        def spec_e(i, o, T):
            q = i[0]; v = q[1:]; X = norm2(v); A = T.sqrt(0, X); out = [rv(x) for x in o[0]]; big = z3.Not(A < eps); small = A < eps
            g = [('exp.sqrt.arg==|v|^2', REq(T.sqrt_arg(0, X), X)), ('exp.w==cos|v|', RGoal('eq', out[0], T.cos(A), big))]
            g += [('exp.xyz[%d]*|v|==sin|v|*v' % j, RGoal('eq', out[j] * A, T.sin(A) * q[j], big)) for j in (1, 2, 3)]
            g += [('exp.small-angle.w>=1-eps', RGoal('ge', out[0], 1 - eps, small)), ('exp.small-angle.w<=1', RGoal('le', out[0], ONE, small))]
            g += [('exp.small-angle.xyz[%d]^2<=eps^2' % j, RGoal('le', out[j] * out[j], eps * eps, small)) for j in (1, 2, 3)]
            return g
        chk(S, U, 'qexp_' + t, spec_e, None, known=[KF_EXP],
            bounds='all real quaternions (the scalar part is ignored by glm::exp: pure-quaternion exponential); |v| >= eps: (cos|v|, sin|v| v/|v|); |v| < eps: within eps of the identity')
    return run

# ------------------------------------------------------------------------------------------------ [fp] the acos call of slerp stays inside its domain
ARITH = (z3.Z3_OP_FPA_ADD, z3.Z3_OP_FPA_SUB, z3.Z3_OP_FPA_MUL, z3.Z3_OP_FPA_DIV, z3.Z3_OP_FPA_FMA)
def abstract_fp_arith(terms):
    """generalise: every maximal IEEE + - * / fma application becomes a fresh float constant (same term, same constant) - sound for proving validity"""
    pairs = {}; seen = set()
    def go(x):
        k = x.get_id()
        if k in seen: return
        seen.add(k)
        if z3.is_app(x) and x.decl().kind() in ARITH:
            if k not in pairs: pairs[k] = (x, z3.FP('arith!%d' % len(pairs), x.sort()))
            return
        for c in x.children(): go(c)
    for t_ in terms: go(t_)
    sub = list(pairs.values())
    return [z3.substitute(t_, *sub) if sub else t_ for t_ in terms], sub

def job_acos_domain(t, fns):
    """[fp] the branch decision and the acos call.  c = the code's own IEEE cosTheta term (argument of acos), pc = path condition of the acos call, eps_T = epsilon of the element type:
    pc -> not (c > 1 - eps_T), pc or c > 1 - eps_T (the acos branch is taken exactly below the documented threshold of the element type), and (slerp) 0 <= c <= 1 - eps_T, c not NaN.
    Sums/products are abstracted to arbitrary non-NaN floats - exact for this claim: x = (1,0,0,0), y = (c, sqrt(1-c^2), 0, 0) has the computed dot product c, which is how a counterexample
    is replayed: the native function took the linear branch iff its result is bit-identical to the plain blend x*(1-t)+y*t (native lerp), compared with the documented decision c > 1 - eps_T."""
    w = 32 if t == 'f32' else 64; epsf = 2.0 ** -23 if t == 'f32' else 2.0 ** -52
    def tofloat(b): return bits_to_float(b, w)
    def run(S):
        for fn in fns:
            name = fn + '_' + t; is_mix = fn == 'mix'
            res = sym_call(U, name, mode='fp')
            calls = [c for c in getattr(res.ex, 'call_log', []) if c[0] == 'acos']
            if len(calls) != 1:
                S.engine_errors.append('c13.%s.fp: expected exactly one acos call site, found %d' % (name, len(calls))); continue
            _, _, (arg,), cond = calls[0]
            (arg_a, cond_a), sub = abstract_fp_arith([arg, cond])
            nn = [z3.Not(z3.fpIsNaN(v)) for _, v in sub]; hy = [cond_a] + nn
            thr = z3.fpSub(RNE, FPV(1.0, w), FPV(epsf, w)); thr_f = 1.0 - epsf; gt = z3.fpGT(arg_a, thr)
            fl = ['w_' + name]; bd = 'every IEEE sum/product in the argument and the path condition abstracted to an arbitrary non-NaN float (covers all finite inputs whose dot product is not NaN)'
            def mk_replay(goal, hyps, hints, oname):
                def attempt(m):
                    cb = z3.simplify(z3.fpToIEEEBV(m.eval(arg_a, model_completion=True))).as_long(); cv = tofloat(cb)
                    if cv != cv: return None
                    sv = math.sqrt(max(0.0, 1.0 - cv * cv)); tv = 0.5
                    bits = [[float_to_bits(1.0, w), 0, 0, 0], [cb, float_to_bits(sv, w), 0, 0], [float_to_bits(tv, w)]]
                    info = {'unit': U.name, 'fn': name, 'obligation': oname, 'property': S.pid, 'inputs': [[hex(v) for v in r] for r in bits], 'cosTheta': repr(cv), 'documented_threshold_1-eps_T': repr(thr_f)}
                    verd = []
                    for cxx in ('g++', 'clang++-14'):
                        out = U.call_native(name, bits, cxx=cxx)[0]; bl = U.call_native('lerp_' + t, bits, cxx=cxx)[0]
                        linear = all(p == q or tofloat(p) == tofloat(q) for p, q in zip(out, bl))
                        info['native_out_' + cxx] = [hex(v) for v in out]; info['native_blend_' + cxx] = [hex(v) for v in bl]; info['native_took_linear_branch_' + cxx] = linear
                        verd.append(linear != (cv > thr_f))
                    info['documented_decision_linear'] = cv > thr_f
                    return ('reproduced' if any(verd) else 'not-reproduced'), info
                def replay(m):
                    r0 = attempt(m)
                    if r0 and r0[0] == 'reproduced': return r0
                    for h in hints:          # counterexamples right at the threshold are not observable (arc and chord round to the same floats): ask for one well inside
                        r_, m2, _, _ = S.query(list(hyps) + [h, z3.Not(goal)], 20, 'z3')
                        if r_ == 'sat':
                            r1 = attempt(m2)
                            if r1 and r1[0] == 'reproduced': return r1
                    return r0 or ('not-reproduced', {'note': 'model value of cosTheta is NaN'})
                return replay
            lo_hint = [z3.fpLEQ(arg_a, FPV(1.0 - 4096 * epsf, w)), z3.fpLEQ(arg_a, FPV(1.0 - 64 * epsf, w))]      # linear branch taken too early
            hi_hint = [z3.fpGEQ(arg_a, FPV(1.0, w))]                                                              # acos branch taken beyond the threshold (acos(1) = 0: 0/0)
            S.prove('c13.%s.fp.witness' % name, z3.BoolVal(False), hy, timeout=S.cap(20, 60), kind='witness', expect='sat', mandatory=False, functions=fl)
            for lab, goal, hyps, hints in (('decision: acos branch -> not (cosTheta > 1-eps_T)', z3.Implies(cond_a, z3.Not(gt)), nn, hi_hint),
                                           ('decision: acos branch or cosTheta > 1-eps_T', z3.Or(cond_a, gt), nn, lo_hint)):
                oname = 'c13.%s.fp.%s' % (name, lab)
                S.prove(oname, goal, hyps, timeout=S.cap(30, 90), kind='spec', functions=fl, bounds=bd, replay=mk_replay(goal, hyps, hints, oname))
            if not is_mix:
                norep = lambda m: ('not-reproduced', {'note': 'counterexample of the abstraction (arbitrary floats for the sums/products); the argument of acos is not observable natively'})
                oname = 'c13.%s.fp.acos-arg<=1-eps' % name; goal = z3.fpLEQ(arg_a, thr)
                S.prove(oname, goal, hy, timeout=S.cap(30, 90), kind='spec', functions=fl, bounds=bd, replay=mk_replay(goal, hy, hi_hint, oname))
                S.prove('c13.%s.fp.acos-arg>=0' % name, z3.fpGEQ(arg_a, FPV(0.0, w)), hy, timeout=S.cap(30, 90), kind='spec', functions=fl, bounds=bd, replay=norep)
                S.prove('c13.%s.fp.acos-arg-not-NaN' % name, z3.Not(z3.fpIsNaN(arg_a)), hy, timeout=S.cap(30, 90), kind='spec', functions=fl, bounds=bd, replay=norep)
            # twin: the bound is attained (arg == 1-eps is reachable on the acos branch)
            S.prove('c13.%s.fp.twin(arg<1-eps)' % name, z3.fpLT(arg_a, thr), hy, timeout=S.cap(20, 60), kind='mutant-twin', expect='sat', mandatory=False, functions=fl)
    return run

def jobs(tier):
    q = tier == 'quick'; J = [('lemmas', job_lemmas)]
    for t in FT:
        J += [('slerp_' + t, job_slerp(t)), ('mix_' + t, job_slerp(t, 'mix', kind='mix')), ('symmetry_' + t, job_symmetry(t)), ('lerp_' + t, job_lerp(t)), ('dqlerp_' + t, job_dqlerp(t)),
              ('shortmix_' + t, job_shortmix(t)), ('fastmix_' + t, job_fastmix(t)), ('squad_' + t, job_squad(t)), ('intermediate_' + t, job_intermediate(t)),
              ('acosdomain_' + t, job_acos_domain(t, ['mix', 'slerp'] + [kname(k) for k in SPINS]))]
        for k in SPINS: J.append(('%s_%s' % (kname(k), t), job_slerp(t, kname(k), k=k)))
        for k in SPINS: J.append(('symmetry_%s_%s' % (kname(k), t), job_symmetry(t, kname(k), k)))
    for cfg, u in CFG_UNITS.items():
        for t in (FT if not q else list(FT)[:1]):
            for nm, jb in (('slerp', job_slerp(t)), ('mix', job_slerp(t, 'mix', kind='mix')), ('lerp', job_lerp(t)), ('dqlerp', job_dqlerp(t)), ('shortmix', job_shortmix(t)), ('fastmix', job_fastmix(t)),
                           ('squad', job_squad(t)), ('intermediate', job_intermediate(t)), (kname(1), job_slerp(t, kname(1), k=1))):
                J.append(('%s_%s_%s' % (cfg, nm, t), under(u, jb)))
    return J
