#!/usr/bin/env python3-vt
"""writes /verif/MANIFEST.json from the table below + which props/cXX.py exist"""
import json, os, re
V = os.path.dirname(os.path.dirname(os.path.abspath(__file__)))
TECH = 'solver-based checking of the real code: symbolic execution of the clang-14 LLVM IR of the real glm functions (own executor, regenerated from /repo each run) into SMT terms; z3 / cvc5 decide each obligation for all inputs within the stated bounds; counterexamples replayed natively'
T = {
 'C05': ('proof', 'Every GLSL integer/bitfield function instance (8-64 bit, signed/unsigned, scalar and vec1-4) is executed symbolically from its clang IR with full-width free inputs and the solver shows the output equals a bit-level transcription of the GLSL 4.20 text for all inputs in the documented domain; counterexamples are replayed natively (g++ and clang).',
         'Trusted: clang-14 lowering, the IR executor/models (validated per run against native execution), z3/cvc5, the spec transcription. Known findings (usubBorrow, signed bitfieldExtract) are reported and the obligations re-proved outside their regions.', 'DESIGN.md section 3/C05'),
}
NA = {}
SKIP = set(os.environ.get('VERIF_MANIFEST_SKIP', '').split(',')) - {''}
import sys, importlib
sys.path.insert(0, V); sys.path.insert(0, os.path.join(V, 'engine'))
def main():
    checks = []; na = []
    for f in sorted(os.listdir(os.path.join(V, 'props'))):
        m = re.fullmatch(r'(c\d+)\.py', f)
        if not m: continue
        mod = importlib.import_module('props.' + m.group(1))
        if hasattr(mod, 'CLAIM'):
            T[m.group(1).upper()] = (getattr(mod, 'LEVEL', 'proof'), mod.CLAIM, getattr(mod, 'NOTE', 'Trusted: clang-14 lowering, the IR executor/models (validated per run against native execution), z3/cvc5, the spec transcription in props/.') + ' Bounds: ' + getattr(mod, 'BOUNDS', '') + ' Outside the claim: ' + getattr(mod, 'OUTSIDE', ''), 'DESIGN.md section 3/' + m.group(1).upper())
    props = [json.loads(l) for l in open(os.path.join(V, 'properties.jsonl'))]
    for p in props:
        pid = p['id']
        if pid in T and pid not in SKIP and os.path.exists(os.path.join(V, 'props', pid.lower() + '.py')):
            lvl, text, note, ref = T[pid]
            checks.append(dict(property_id=pid, quick_cmd='./check %s --tier quick' % pid, thorough_cmd='./check %s --tier thorough' % pid,
                               evidence_file='evidence/%s.json' % pid, replay_cmd_template='./check %s --replay {path}' % pid, engine='irsym',
                               level_claimed=dict(category=lvl, text=text, design_ref=ref), level_note=note, technique=TECH))
        else:
            na.append(dict(property_id=pid, reason=NA.get(pid, 'no check registered for this property yet (see DESIGN.md section 3 for the planned solver encoding)')))
    m = dict(version=1, setup_cmd='./setup.sh',
             hooks=dict(guard='GLM_VERIF_HOOKS', enable='none needed: the checks compile wrapper translation units against the unmodified headers in /repo', baseline_off_cmd='./tools/run_suite.sh', source_commits=[], add_only=True),
             engines=[dict(name='irsym', path='engine/', serves_properties=[c['property_id'] for c in checks], kind_free_text='LLVM-IR symbolic executor (Python) producing z3 terms; z3/cvc5 decide; native replay via ctypes / UBSan builds')],
             checks=checks, notes='Exit codes: 0 = all mandatory obligations discharged (KNOWN-FINDING lines allowed); 1 = VIOLATION (replayed natively); 2 = INCONCLUSIVE / ENGINE-ERROR (a mandatory obligation timed out, could not be encoded, or the translator validation failed) - never reported as success.',
             not_applicable=na)
    json.dump(m, open(os.path.join(V, 'MANIFEST.json'), 'w'), indent=1)
main()
