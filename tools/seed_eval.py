#!/usr/bin/env python3
"""Confirm a seeded defect and run the checks against it.

  tools/seed_eval.py <PID> <seed_dir> [--checks C07,C20] [--suite] [--tier quick] [--keep <dest>] [--inplace]

seed_dir holds patch.diff, demo.cpp, notes.txt (as written by an independent sub-agent that saw only the property text).
Steps (all in a scratch git worktree of /repo under /var/tmp, removed afterwards; /repo itself is never touched unless --inplace):
  1. demo.cpp is built and run against the clean tree (must exit 0) and against the patched tree (must exit non-zero);
  2. --suite: the repository's test suite is built (ccache) and run on the patched tree (must pass 185/185);
  3. every listed check is run with GLM_REPO=<patched tree> (or, with --inplace, the patch is applied to /repo with git apply and undone with
     git checkout afterwards); a check 'catches' the seed when it exits 1 with a VIOLATION line.
Writes <seed_dir>/result.json and, with --keep, copies patch/demo/meta.json to /verif/seeded/<name>/.
"""
import sys, os, re, json, subprocess, shutil, time, argparse
V = os.path.dirname(os.path.dirname(os.path.abspath(__file__)))

def sh(cmd, cwd=None, env=None, timeout=None):
    p = subprocess.run(cmd, shell=isinstance(cmd, str), cwd=cwd, env=env, capture_output=True, text=True, timeout=timeout)
    return p.returncode, p.stdout + p.stderr

def demo_cmd(seed, tree, out):
    notes = open(os.path.join(seed, 'notes.txt')).read() if os.path.exists(os.path.join(seed, 'notes.txt')) else ''
    cands = [l.strip() for l in notes.split('\n') if re.search(r'(g\+\+|clang\+\+(-14)?)\s', l) and 'demo' in l and '-I' in l]
    flags = []; cxx = 'g++'
    if cands:
        l = cands[0]; segs = [x for x in l.split('&&') if re.search(r'(g\+\+|clang\+\+)', x) and 'demo' in x]; l = segs[0] if segs else l
        m = re.search(r'(g\+\+|clang\+\+-14|clang\+\+)', l)
        if m is None: m = re.search(r'', l)
        else: cxx = m.group(1)
        if cxx == 'clang++': cxx = 'clang++-14'
        for tok in l[m.end():].split():
            if re.fullmatch(r'-(D\w+(=[\w.]+)?|m[a-z0-9][\w.=-]*|f[a-z][\w=,-]*[a-z0-9]|std=[\w+]+|O[0-3s]|pthread)', tok): flags.append(tok)
    if not any(f.startswith('-std=') for f in flags): flags.append('-std=c++17')
    return [cxx] + flags + ['-I', tree, os.path.join(seed, 'demo.cpp'), '-o', out]

def main():
    ap = argparse.ArgumentParser()
    ap.add_argument('pid'); ap.add_argument('seed'); ap.add_argument('--checks', default=None); ap.add_argument('--suite', action='store_true')
    ap.add_argument('--tier', default='quick'); ap.add_argument('--keep', default=None); ap.add_argument('--inplace', action='store_true')
    ap.add_argument('--jobs', default='8'); ap.add_argument('--only', default=None)
    a = ap.parse_args()
    seed = os.path.abspath(a.seed); checks = (a.checks or a.pid).split(',')
    tag = '%s_%s_%d' % (a.pid, os.path.basename(seed), os.getpid())
    wt = '/var/tmp/seedwt/' + tag
    os.makedirs('/var/tmp/seedwt', exist_ok=True)
    res = dict(property=a.pid, seed=seed, checks={}, at=time.strftime('%Y-%m-%dT%H:%M:%S'))
    rc, out = sh(['git', '-C', '/repo', 'worktree', 'add', '--detach', wt, 'HEAD'])
    if rc: print(out); sys.exit(2)
    res['repo_head'] = sh(['git', '-C', '/repo', 'rev-parse', '--short', 'HEAD'])[1].strip()
    try:
        exe = os.path.join(wt, '_demo')
        cmd = demo_cmd(seed, wt, exe)
        rc, out = sh(cmd); res['demo_build_cmd'] = ' '.join(cmd)
        if rc: res['demo_clean'] = 'build-failed: ' + out[-500:]
        else:
            rc, out = sh([exe], timeout=1200); res['demo_clean_exit'] = rc; res['demo_clean_tail'] = out[-300:]
        rc, out = sh(['git', '-C', wt, 'apply', os.path.join(seed, 'patch.diff')])
        if rc:      # the seed was written against an older HEAD (before later fix: commits): three-way merge
            rc, out = sh(['git', '-C', wt, 'apply', '--3way', os.path.join(seed, 'patch.diff')]); res['apply_3way'] = True
            sh(['git', '-C', wt, 'reset', '-q'])
        if rc: res['apply'] = 'failed: ' + out[-500:]; raise SystemExit
        res['apply'] = 'ok'; res['files_changed'] = sh(['git', '-C', wt, 'diff', '--stat'])[1].strip().split('\n')
        rc, out = sh(cmd)
        if rc: res['demo_patched'] = 'build-failed: ' + out[-500:]
        else:
            rc, out = sh([exe], timeout=1200); res['demo_patched_exit'] = rc; res['demo_patched_tail'] = out[-300:]
        if os.path.exists(exe): os.unlink(exe)
        res['demo_confirms'] = res.get('demo_clean_exit') == 0 and res.get('demo_patched_exit', 0) != 0
        if a.suite:
            env = dict(os.environ, CCACHE_DIR='/var/tmp/seedwt/ccache', CCACHE_BASEDIR=wt, CCACHE_NOHASHDIR='1')
            t0 = time.time()
            rc, out = sh('cmake -G Ninja -B _build -S . -DGLM_BUILD_TESTS=ON -DCMAKE_BUILD_TYPE=RelWithDebInfo -DCMAKE_CXX_FLAGS=-Wno-error -DCMAKE_CXX_COMPILER_LAUNCHER=ccache >/dev/null 2>&1 && cmake --build _build -j%s 2>&1 | tail -3 && ctest --test-dir _build -j%s --timeout 900 2>&1 | tail -4' % (a.jobs, a.jobs), cwd=wt, env=env)
            res['suite_tail'] = out[-400:]; res['suite_pass'] = '100% tests passed, 0 tests failed out of 185' in out; res['suite_s'] = round(time.time() - t0, 1)
            shutil.rmtree(os.path.join(wt, '_build'), ignore_errors=True)
        for c in checks:
            t0 = time.time()
            if a.inplace:
                rc, out = sh(['git', '-C', '/repo', 'apply', os.path.join(seed, 'patch.diff')])
                assert rc == 0, out
                try:
                    rc, out = sh(['./check', c, '--tier', a.tier] + (['--only', a.only] if a.only else []), cwd=V)
                finally:
                    sh(['git', '-C', '/repo', 'checkout', '--', '.'])
                how = 'git -C /repo apply patch.diff; ./check %s --tier %s; git -C /repo checkout -- .' % (c, a.tier)
            else:
                env = dict(os.environ, GLM_REPO=wt, VERIF_NO_EVIDENCE='1')
                rc, out = sh(['./check', c, '--tier', a.tier] + (['--only', a.only] if a.only else []), cwd=V, env=env)
                how = 'GLM_REPO=<scratch worktree with patch.diff applied> ./check %s --tier %s' % (c, a.tier)
            viol = [l for l in out.split('\n') if l.startswith('VIOLATION')]
            other = [l for l in out.split('\n') if l.startswith(('INCONCLUSIVE', 'ENGINE-ERROR'))]
            res['checks'][c] = dict(exit=rc, violations=len(viol), first_violation=viol[:3], other=other[:5], summary=[l for l in out.split('\n') if ' tier=' in l][-1:], wall_s=round(time.time() - t0, 1), how=how,
                                    caught=(rc == 1 and len(viol) > 0))
            # describe the first violated obligation
            for l in viol[:1]:
                m = re.search(r'replay=(\S+)', l)
                if m and os.path.exists(m.group(1)):
                    try: res['checks'][c]['first_obligation'] = json.load(open(m.group(1))).get('obligation')
                    except Exception: pass
    except SystemExit:
        pass
    finally:
        sh(['git', '-C', '/repo', 'worktree', 'remove', '--force', wt]); shutil.rmtree(wt, ignore_errors=True)
    res['caught_by'] = [c for c, r in res['checks'].items() if r['caught']]
    json.dump(res, open(os.path.join(seed, 'result.json'), 'w'), indent=1)
    print(json.dumps({k: res[k] for k in ('property', 'seed', 'demo_confirms', 'caught_by') if k in res} | {'suite_pass': res.get('suite_pass'), 'checks': {c: (r['exit'], r['violations'], r.get('first_obligation')) for c, r in res['checks'].items()}}))
    if a.keep:
        dest = os.path.join(V, 'seeded', a.keep); os.makedirs(dest, exist_ok=True)
        for f in ('patch.diff', 'demo.cpp', 'notes.txt'):
            if os.path.exists(os.path.join(seed, f)): shutil.copy(os.path.join(seed, f), dest)
        meta = dict(property=a.pid, breaks=open(os.path.join(seed, 'notes.txt')).read()[:1500] if os.path.exists(os.path.join(seed, 'notes.txt')) else '',
                    confirmed=dict(demo_clean_exit=res.get('demo_clean_exit'), demo_patched_exit=res.get('demo_patched_exit'), suite_pass=res.get('suite_pass'), demo_build_cmd=res.get('demo_build_cmd'), repo_head=res.get('repo_head')),
                    checks=res['checks'], caught_by=res['caught_by'])
        json.dump(meta, open(os.path.join(dest, 'meta.json'), 'w'), indent=1)
main()
