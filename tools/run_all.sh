#!/bin/bash
# usage: tools/run_all.sh <tier> <jobs> [ids...]   - runs the listed (default: all registered) checks sequentially, logs to /var/tmp/runs/all_<tier>/
tier=${1:-quick}; j=${2:-14}; shift 2
cd "$(dirname "$0")/.."
ids="$@"; [ -z "$ids" ] && ids=$(python3 -c "import json; print(' '.join(c['property_id'] for c in json.load(open('MANIFEST.json'))['checks']))")
out=/var/tmp/runs/all_$tier; mkdir -p $out
for p in $ids; do
  s=$(date +%s); ./check $p --tier $tier -j $j > $out/$p.log 2>&1; rc=$?
  echo "$p exit=$rc $(( $(date +%s) - s ))s $(grep ' tier=' $out/$p.log | tail -1 | cut -c1-240)"
done
