#!/usr/bin/env python3-vt
"""Regenerates the machine-written sections of DESIGN.md (between <!-- BEGIN:x --> / <!-- END:x --> markers) from
known_findings.json, seeded/*/meta.json, props/*.py (CLAIM/BOUNDS/OUTSIDE) and evidence/*.json."""
import os, sys, json, re, glob, importlib
V = os.path.dirname(os.path.dirname(os.path.abspath(__file__)))
sys.path.insert(0, V); sys.path.insert(0, os.path.join(V, 'engine'))

def findings():
    d = json.load(open(os.path.join(V, 'known_findings.json')))
    out = ['### Open known findings (genuine defects recorded, not repaired)', '',
           '| id | property | what fails |', '|---|---|---|']
    for e in d['findings']:
        if e.get('status', 'open') != 'open': continue
        out.append('| %s | %s | %s |' % (e['id'], e['property'], e['what'].replace('|', '\\|').replace('\n', ' ')[:420]))
    out += ['', '### Repaired defects (`fix:` commits in /repo; entries suppress nothing)', '', '| property | commit | what failed |', '|---|---|---|']
    for l in d['fixed']:
        m = re.match(r'fixed: property=(\S+) (\S+) (.*)', l)
        if m: out.append('| %s | %s | %s |' % (m.group(1), m.group(2), m.group(3).replace('|', '\\|')[:330]))
    return '\n'.join(out)

def seeds():
    rows = []
    for f in sorted(glob.glob(os.path.join(V, 'seeded', '*', 'meta.json'))):
        m = json.load(open(f)); name = os.path.basename(os.path.dirname(f))
        notes = m.get('breaks', '').strip().split('\n')
        title = next((l.strip() for l in notes if l.strip() and not set(l.strip()) <= set('=-')), '')[:150]
        caught = ', '.join('%s (`%s`)' % (c, (m['checks'][c].get('first_obligation') or '?')[:70]) for c in m.get('caught_by', [])) or '**not caught**'
        cf = m.get('confirmed', {})
        rows.append('| %s | %s | %s | demo %s/%s, suite %s | %s |' % (name, m['property'], title.replace('|', '\\|'), cf.get('demo_clean_exit'), cf.get('demo_patched_exit'),
                                                                  'pass' if cf.get('suite_pass') else ('?' if cf.get('suite_pass') is None else 'FAIL'), caught))
    hdr = ['| seed | property | change (first line of the author\'s notes) | confirmed (demo exit clean/changed, test suite with change) | caught by (first violated obligation) |', '|---|---|---|---|---|']
    return '\n'.join(hdr + rows)

def asbuilt():
    out = []
    for pid in ['C%02d' % i for i in range(1, 21)]:
        try: mod = importlib.import_module('props.' + pid.lower())
        except Exception as e:
            out.append('#### %s\n(no module: %s)\n' % (pid, e)); continue
        ev = {}
        p = os.path.join(V, 'evidence', pid + '.json')
        if os.path.exists(p): ev = json.load(open(p))
        c = ev.get('coverage', {})
        out.append('#### %s (as built, level `%s`)' % (pid, getattr(mod, 'LEVEL', 'proof')))
        out.append('* **Decided**: ' + getattr(mod, 'CLAIM', '').strip())
        out.append('* **Bounds**: ' + getattr(mod, 'BOUNDS', '').strip())
        out.append('* **Outside the claim**: ' + getattr(mod, 'OUTSIDE', '').strip())
        if c: out.append('* **Last committed %s run**: %s obligations, %s discharged, %s solver queries, %s functions encoded, solver %.0f s, wall %.0f s.' % (
            ev.get('tier'), c.get('obligations'), c.get('discharged'), c.get('queries'), c.get('n_functions_encoded'), c.get('solver_time_s', 0), ev.get('wall_s', 0)))
        out.append('')
    return '\n'.join(out)

def main():
    p = os.path.join(V, 'DESIGN.md'); s = open(p).read()
    for key, fn in (('findings', findings), ('seeds', seeds), ('asbuilt', asbuilt)):
        b = '<!-- BEGIN:%s -->' % key; e = '<!-- END:%s -->' % key
        if b in s and e in s:
            s = s[:s.index(b) + len(b)] + '\n' + fn() + '\n' + s[s.index(e):]
    open(p, 'w').write(s)
main()
