#!/usr/bin/env python3
"""known-findings maintenance.
  tools/kf.py merge                      move known/*.json entries into known_findings.json (staging dir stays for builders)
  tools/kf.py fixed <commit> <KF-id>[,<KF-id>...] "<what failed>"     mark entries fixed and append the 'fixed:' line
  tools/kf.py list
"""
import sys, os, json, glob
V = os.path.dirname(os.path.dirname(os.path.abspath(__file__)))
MAIN = os.path.join(V, 'known_findings.json')
def load(): return json.load(open(MAIN))
def save(d): json.dump(d, open(MAIN, 'w'), indent=1); open(MAIN, 'a').write('\n')
def merge():
    d = load(); ids = {e['id']: i for i, e in enumerate(d['findings'])}
    for f in sorted(glob.glob(os.path.join(V, 'known', '*.json'))):
        s = json.load(open(f))
        for e in s['findings']:
            if e['id'] in ids: d['findings'][ids[e['id']]] = e
            else: ids[e['id']] = len(d['findings']); d['findings'].append(e)
        for k, v in s.items():
            if k not in ('findings', '_comment'): d.setdefault('extra', {})[os.path.basename(f) + ':' + k] = v
        os.unlink(f)
    save(d)
def fixed(commit, kids, what):
    d = load(); pid = None
    for k in kids.split(','):
        hit = [e for e in d['findings'] if e['id'] == k]
        assert hit, 'no such finding: ' + k
        hit[0]['status'] = 'fixed'; hit[0]['fixed_by'] = commit; pid = hit[0]['property']
    line = 'fixed: property=%s %s %s' % (pid, commit, what)
    if line not in d['fixed']: d['fixed'].append(line)
    save(d)
def main():
    if sys.argv[1] == 'merge': merge()
    elif sys.argv[1] == 'fixed': fixed(sys.argv[2], sys.argv[3], sys.argv[4])
    elif sys.argv[1] == 'list':
        for e in load()['findings']: print(e['id'], e.get('status', 'open'), e.get('fixed_by', ''))
main()
