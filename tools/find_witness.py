#!/usr/bin/env python3-vt
"""Development aid (NOT part of any verdict): search natively for one input on which two builds of a wrapper differ, to be recorded as
the witness of an instance-level known finding.  usage: find_witness.py c15 <cfg> <fn> [...]"""
import sys, os, random, json
V = os.path.dirname(os.path.dirname(os.path.abspath(__file__))); sys.path.insert(0, V); sys.path.insert(0, os.path.join(V, 'engine'))
import importlib, harness
from harness import sample_inputs, ct_kind, ct_bits, bits_to_float
mod = importlib.import_module('props.' + sys.argv[1]); cfg = sys.argv[2]
ua = mod.B; ub = mod.UNITS[cfg]; rnd = random.Random(7); out = {}
for fn in sys.argv[3:]:
    f = ua.fns[fn]; found = None
    for tup in sample_inputs(f, rnd, 4000):
        try: na = ua.call_native(fn, tup); nb = ub.call_native(fn, tup)
        except Exception as e: print(e); break
        for (c, n), xa, xb in zip(f.outs, na, nb):
            for x, y in zip(xa, xb):
                if ct_kind(c) == 'f':
                    fx, fy = bits_to_float(x, ct_bits(c)), bits_to_float(y, ct_bits(c))
                    if x != y and not (fx != fx and fy != fy): found = (tup, na, nb)
                elif x != y: found = (tup, na, nb)
        if found: break
    if found: out[fn] = [[hex(v) for v in r] for r in found[0]]; print(fn, out[fn], [[hex(v) for v in r] for r in found[1]], [[hex(v) for v in r] for r in found[2]])
    else: print(fn, 'no difference found')
print(json.dumps(out))
