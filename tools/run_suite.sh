#!/bin/sh
# the repository's own test suite, hooks guard OFF (no hooks exist; nothing is defined)
set -e
cd /repo
[ -f _build/build.ninja ] || cmake -G Ninja -B _build -S . -DGLM_BUILD_TESTS=ON -DCMAKE_BUILD_TYPE=RelWithDebInfo -DCMAKE_CXX_FLAGS=-Wno-error >/dev/null
cmake --build _build -j16 >/dev/null
ctest --test-dir _build -j8 --timeout 900
