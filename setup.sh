#!/bin/sh
# offline setup: nothing to download or build; verify the tools and run the engine self-test
set -e
cd "$(dirname "$0")"
for t in python3-vt clang++-14 g++ cvc5; do command -v $t >/dev/null || { echo "missing $t"; exit 1; }; done
python3-vt -c "import z3; print('z3', z3.get_version_string())"
python3-vt engine/selftest.py
