"""Runs one property: compile units from /repo, fork a pool over the property's jobs, aggregate, write evidence."""
import os, sys, json, time, importlib, signal, traceback, re, multiprocessing
HERE = os.path.dirname(os.path.abspath(__file__)); VERIF = os.path.dirname(HERE)
sys.path.insert(0, HERE); sys.path.insert(0, VERIF)
import harness
from harness import Session, Unit, compile_units

TRUSTED = [
    'clang++-14 lowering of the wrapper TU + /repo/glm headers to LLVM IR at the flags in engine/harness.py (BASE_CFLAGS)',
    'engine/irsym.py (IR parser, path-merging symbolic executor, byte-exact memory model) and engine/models.py (intrinsic/libm/x86 models); validated each run against native execution on sampled inputs',
    'z3 5.1.0 (python3-vt) and cvc5 1.0.3 (--solve-bv-as-int=sum) as deciding solvers',
    'the specification transcriptions in props/*.py',
]
_JOBS = []
def _run_job(i):
    name, fn, pid, tier, seed, pins, cap = _JOBS[i]
    S = Session(pid, tier, seed + i, pins)
    t0 = time.time()
    def onalarm(sig, frm): raise TimeoutError('job wall-clock cap %ds' % cap)
    signal.signal(signal.SIGALRM, onalarm); signal.alarm(cap)
    err = None
    try:
        fn(S)
    except TimeoutError as e:
        err = 'timeout: %s' % e
        if name.endswith('_opt'):      # a job that only attempts optional (non-mandatory) obligations: what it did not get to is simply not attempted
            err = None; S.rec(name='%s.job-budget' % name, kind='note', result='unknown', status='optional job stopped at its wall-clock budget of %ds' % cap, mandatory=False)
    except Exception as e:
        err = traceback.format_exc()[-3000:]
    finally:
        signal.alarm(0)
    return dict(job=name, records=S.records, violations=S.violations, known=S.known_hits, inconclusive=S.inconclusive,
                engine_errors=S.engine_errors, validated=S.validated, error=err, wall=time.time() - t0)

def san(s): return re.sub(r'[^A-Za-z0-9_.-]+', '_', s)[:150]

def run_property(pid, tier, seed, replay=None, only=None, nproc=None, verbose=False):
    t0 = time.time()
    mod = importlib.import_module('props.' + pid.lower())
    pins = {}
    if only and not replay: os.environ['VERIF_NO_EVIDENCE'] = '1'      # a partial run (--only) never overwrites the evidence file
    if replay:
        info = json.load(open(replay)); pins = {info['obligation_base']: info['inputs_hex']}; only = info.get('job')
    ulist = mod.units(tier)
    todo = {}
    for u in ulist:
        if isinstance(u, tuple): todo.setdefault(u[0], []).append((u[1], u[2]))
        else: todo.setdefault(u, []).append(('-O1', False))
    from concurrent.futures import ThreadPoolExecutor
    flat = [(u, o, ub) for u, vs in todo.items() for (o, ub) in vs]
    tc = time.time()
    with ThreadPoolExecutor(max_workers=16) as tp:
        f1 = [tp.submit(t[0].compile_ll, t[1], t[2]) for t in flat]
        f2 = [tp.submit(u.native) for u in todo] if getattr(mod, 'NATIVE', True) else []
        for f in f1 + f2: f.result()
    for u, o, ub in flat: u.module(o, ub)
    t_compile = time.time() - tc
    jobs = mod.jobs(tier)
    if only: jobs = [j for j in jobs if re.search(only, j[0])]
    cap = getattr(mod, 'JOB_CAP', {}).get(tier, 900 if tier == 'quick' else 3600)
    global _JOBS
    _JOBS = [(n, f, pid, tier, seed, pins, min(cap, 900) if n.endswith('_opt') else cap) for n, f in jobs]
    nproc = nproc or int(os.environ.get('VERIF_JOBS', '14'))
    results = []
    if nproc == 1 or len(_JOBS) == 1:
        for i in range(len(_JOBS)): results.append(_run_job(i))
    else:
        # own process management instead of a Pool: a worker stuck inside a solver call that ignores both its timeout and the in-process alarm is killed by the
        # parent at cap + 60 s and reported as an engine error (never as success)
        ctx = multiprocessing.get_context('fork')
        pending = list(range(len(_JOBS))); running = {}
        def _child(i, conn):
            try: conn.send(_run_job(i))
            except BaseException as e:
                import traceback as _tb; sys.stderr.write('worker %s: %s\n' % (_JOBS[i][0], _tb.format_exc()[-800:]))
                try: conn.send(dict(job=_JOBS[i][0], records=[], violations=[], known=[], inconclusive=[], engine_errors=[], validated=0, error='worker failed: %r' % (e,), wall=0.0))
                except Exception: pass
            finally: conn.close()
        import multiprocessing.connection as mpc
        while pending or running:
            while pending and len(running) < nproc:
                i = pending.pop(0); pc, cc = ctx.Pipe(duplex=False)
                pr = ctx.Process(target=_child, args=(i, cc)); pr.daemon = True; pr.start(); cc.close()
                running[i] = (pr, pc, time.time())
            ready = mpc.wait([v[1] for v in running.values()], timeout=2.0)
            for i in list(running):
                pr, pc, ts = running[i]
                r = None
                if pc in ready:
                    try: r = pc.recv()
                    except (EOFError, OSError): r = dict(job=_JOBS[i][0], records=[], violations=[], known=[], inconclusive=[], engine_errors=[], validated=0, error='worker died without a result (exit code %r)' % (pr.join(2) or pr.exitcode,), wall=time.time() - ts)
                elif time.time() - ts > _JOBS[i][6] + 60:
                    pr.kill(); r = dict(job=_JOBS[i][0], records=[], violations=[], known=[], inconclusive=[], engine_errors=[], validated=0, error=None if _JOBS[i][0].endswith('_opt') else 'killed by the runner: job exceeded its wall-clock cap of %ds (solver call did not return)' % _JOBS[i][6], wall=time.time() - ts)
                if r is not None:
                    pr.join(timeout=5); pc.close(); del running[i]; results.append(r)
                    if verbose: print('  job %-40s %.1fs %s' % (r['job'], r['wall'], 'ERR' if r['error'] else ''), flush=True)
    results.sort(key=lambda r: r['job'])
    return finish(pid, tier, seed, mod, results, time.time() - t0, t_compile, flat, replay)

def finish(pid, tier, seed, mod, results, wall, t_compile, flat, replay):
    recs = []; viol = []; known = []; inconc = []; eng = []; validated = 0
    for r in results:
        for x in r['records']: x['job'] = r['job']
        recs += r['records']; viol += [(r['job'],) + tuple(v) for v in r['violations']]; known += r['known']
        inconc += ['%s: %s' % (r['job'], x) for x in r['inconclusive']]; eng += ['%s: %s' % (r['job'], x) for x in r['engine_errors']]
        validated += r['validated']
        if r['error']: eng.append('%s: job failed: %s' % (r['job'], r['error']))
    claim = [x for x in recs if x.get('expect') != 'sat' and x.get('kind') not in ('known-finding-probe', 'validate', 'encode') and x.get('mandatory', True)]
    oblig = len(claim); disch = len([x for x in claim if x.get('status') == 'discharged'])
    optional = [x for x in recs if x.get('expect') != 'sat' and x.get('kind') not in ('known-finding-probe', 'validate') and not x.get('mandatory', True)]
    twins = [x for x in recs if x.get('expect') == 'sat']
    solver_time = sum(x.get('time_s', 0) for x in recs)
    # replay files for violations
    lines = []
    rdir = os.path.join(VERIF, 'evidence', 'replays', pid)
    for job, oname, info in viol:
        os.makedirs(rdir, exist_ok=True)
        path = os.path.join(rdir, san(oname) + '.json')
        base = oname
        for suf in ('.outside-known',): base = base.replace(suf, '')
        # obligation_base = check_fn name (pins are keyed by it)
        ob = info.get('unit', '') + '.' + info.get('fn', '') if isinstance(info, dict) and 'fn' in info else oname
        d = dict(property=pid, job=job, obligation=oname, obligation_base=info.get('pin_name', ob) if isinstance(info, dict) else ob,
                 inputs_hex=info.get('inputs') if isinstance(info, dict) else None, detail=info,
                 how_to_replay='cd /verif && ./check %s --replay %s' % (pid, path))
        json.dump(d, open(path, 'w'), indent=1, default=str)
        lines.append('VIOLATION property=%s replay=%s' % (pid, path))
    seen = set()
    for kid, what in known:
        if kid in seen: continue
        seen.add(kid); print('KNOWN-FINDING: property=%s %s [%s]' % (pid, what, kid))
    for l in lines: print(l)
    for x in inconc: print('INCONCLUSIVE property=%s %s' % (pid, x))
    for x in eng: print('ENGINE-ERROR property=%s %s' % (pid, x))
    level = getattr(mod, 'LEVEL', 'proof')
    samples = []
    for x in claim[:3] + claim[len(claim) // 2: len(claim) // 2 + 2] + twins[:1]:
        samples.append({k: x.get(k) for k in ('name', 'kind', 'functions', 'bounds', 'solver', 'result', 'time_s', 'status')})
    cov = dict(
        obligations=oblig, discharged=disch,
        checker_cmd='cd /verif && ./check %s --tier %s' % (pid, tier),
        trusted_base=TRUSTED + list(getattr(mod, 'TRUSTED', [])),
        samples=samples,
        queries=len(recs), solver_time_s=round(solver_time, 2), compile_time_s=round(t_compile, 2),
        units=[dict(unit=u.name, opt=o, ubsan=ub, functions=len(u.fns), ll_sha=u.ll_sha(o, ub), defines=u.defines, cflags=u.cflags) for u, o, ub in flat],
        functions_encoded=sorted({f for x in recs for f in x.get('functions', [])})[:400],
        n_functions_encoded=len({f for x in recs for f in x.get('functions', [])}),
        vacuity_witnesses=len([x for x in twins if x.get('kind') == 'witness']), witnesses_sat=len([x for x in twins if x.get('kind') == 'witness' and x.get('result') == 'sat']),
        mutant_twins=len([x for x in twins if x.get('kind') == 'mutant-twin']), mutant_twins_sat=len([x for x in twins if x.get('kind') == 'mutant-twin' and x.get('result') == 'sat']),
        translator_validation_comparisons=validated,
        known_findings_reported=sorted(seen),
        optional_attempted=len(optional), optional_discharged=len([x for x in optional if x.get('status') == 'discharged']),
        inconclusive=inconc[:50], engine_errors=eng[:20],
        bounds=getattr(mod, 'BOUNDS', ''), outside_claim=getattr(mod, 'OUTSIDE', ''),
        by_kind={k: len([x for x in claim if x.get('kind') == k]) for k in sorted({x.get('kind') for x in claim})},
        slowest=sorted([(x.get('time_s', 0), x['name']) for x in recs], reverse=True)[:5],
        explanation=getattr(mod, 'EXPLANATION', ''),
    )
    if level == 'translation_validation':
        cov['programs'] = getattr(mod, 'PROGRAMS', lambda recs: len({x['name'].split('.')[0] for x in claim}))(recs) if callable(getattr(mod, 'PROGRAMS', None)) else len({x['name'] for x in claim})
        cov['disagreements_checked'] = len(viol) + len(seen)
    ev = dict(property_id=pid, tier=tier, seed=seed, level=level, coverage=cov, assumptions=list(getattr(mod, 'ASSUMPTIONS', [])),
              wall_s=round(wall, 2), violations=len(viol))
    if not replay and not os.environ.get('VERIF_NO_EVIDENCE'):
        os.makedirs(os.path.join(VERIF, 'evidence'), exist_ok=True)
        json.dump(ev, open(os.path.join(VERIF, 'evidence', pid + '.json'), 'w'), indent=1, default=str)
        json.dump(recs, open(os.path.join(harness.scratch(), pid + '.records.json'), 'w'), default=str)
    if os.environ.get('VERIF_KEEP_RECORDS'):
        json.dump(recs, open(os.environ['VERIF_KEEP_RECORDS'], 'w'), indent=1, default=str)
    print('%s tier=%s obligations=%d discharged=%d optional=%d/%d witnesses=%d/%d twins=%d/%d known=%d violations=%d inconclusive=%d engine_errors=%d validated=%d wall=%.1fs (compile %.1fs, solver %.1fs)' % (
        pid, tier, oblig, disch, cov['optional_discharged'], cov['optional_attempted'], cov['witnesses_sat'], cov['vacuity_witnesses'], cov['mutant_twins_sat'], cov['mutant_twins'], len(seen), len(viol), len(inconc), len(eng), validated, wall, t_compile, solver_time))
    if viol: return 1
    if inconc or eng: return 2
    return 0
