"""Rounding erasure at the term level: translate a bit-exact z3 FloatingPoint term (as produced by the executor in 'fp' mode, where every
bitcast, vector shuffle and mask trick is handled exactly) into a Real term in which every IEEE operation is the exact operation.

  fp.add/sub/mul/div/fma/neg/abs -> exact;  fp.sqrt(x) -> fresh y with y >= 0 and y*y = x (axiom; domain obligation x >= 0)
  fpToFP(bit-vector variable) -> one Real variable per bit-vector variable;  FP numerals -> exact rationals
  comparisons -> real comparisons;  fp.isNaN / fp.isInfinite -> false (reals are finite);  libm / x86 approximation UFs -> real UFs (congruence only)
  bit tricks on the IEEE image:  x & 0x7fff.. -> |x| ;  x ^ 0x8000.. -> -x ;  (a & m) | (b & ~m) with m = ite(c, ~0, 0) -> ite(c, a, b) ;  x & ite(c,~0,0) -> ite(c, x, 0)
Anything else raises Unsupported (the obligation is then reported 'not encoded', never 'passed')."""
import z3
from fractions import Fraction
from irsym import Unsupported, FSORT

class Eraser:
    def __init__(s):
        s.memo = {}; s.vars = {}; s.axioms = []; s.domain = []; s.ufs = {}; s.n = 0; s.approx_ufs = set()
    def fresh(s, p):
        s.n += 1; return z3.Real('%s!e%d' % (p, s.n))
    def var(s, b):
        k = b.decl().name()
        if k not in s.vars: s.vars[k] = z3.Real('R_' + k)
        return s.vars[k]
    # ---- FP-sorted terms -> Real
    def fp(s, t):
        k = t.get_id()
        if k in s.memo: return s.memo[k][1]
        r = s._fp(t); s.memo[k] = (t, r); return r        # keep t alive: z3 reuses ids of collected terms
    def _fp(s, t):
        if z3.is_fp_value(t):
            if t.isNaN() or t.isInf(): raise Unsupported('non-finite FP constant in rounding-erased term')
            sig = Fraction(t.significand_as_long(), 1 << (t.sbits() - 1)) if False else None
            v = Fraction(t.as_string()) if False else None
            sg = -1 if t.sign() else 1
            if t.isZero(): return z3.RealVal(0)
            e = t.exponent_as_long(biased=False); m = t.significand_as_long(); sb = t.sbits()
            if t.isSubnormal(): val = Fraction(m, 1 << (sb - 1)) * Fraction(2) ** (1 - ((1 << (t.ebits() - 1)) - 1))
            else: val = (1 + Fraction(m, 1 << (sb - 1))) * Fraction(2) ** e
            return z3.RealVal(str(sg * val))
        if not z3.is_app(t): raise Unsupported('erase: non-app')
        d = t.decl().kind(); a = [t.arg(i) for i in range(t.num_args())]
        K = z3
        if d == K.Z3_OP_FPA_ADD: return s.fp(a[1]) + s.fp(a[2])
        if d == K.Z3_OP_FPA_SUB: return s.fp(a[1]) - s.fp(a[2])
        if d == K.Z3_OP_FPA_MUL: return s.fp(a[1]) * s.fp(a[2])
        if d == K.Z3_OP_FPA_DIV:
            den = s.fp(a[2]); s.domain.append(den == 0); return s.fp(a[1]) / den
        if d == K.Z3_OP_FPA_FMA: return s.fp(a[1]) * s.fp(a[2]) + s.fp(a[3])
        if d == K.Z3_OP_FPA_NEG: return -s.fp(a[0])
        if d == K.Z3_OP_FPA_ABS:
            x = s.fp(a[0]); return z3.If(x >= 0, x, -x)
        if d == K.Z3_OP_FPA_SQRT:
            x = s.fp(a[1]); y = s.fresh('sqrt'); s.axioms.append(z3.And(y >= 0, y * y == x)); s.domain.append(x < 0); return y
        if d == K.Z3_OP_FPA_MIN:
            x, y = s.fp(a[0]), s.fp(a[1]); return z3.If(y < x, y, x)
        if d == K.Z3_OP_FPA_MAX:
            x, y = s.fp(a[0]), s.fp(a[1]); return z3.If(y > x, y, x)
        if d == K.Z3_OP_FPA_ROUND_TO_INTEGRAL:
            rm = a[0].decl().kind(); x = s.fp(a[1]); fl = z3.ToReal(z3.ToInt(x))
            if rm == K.Z3_OP_FPA_RM_TOWARD_NEGATIVE: return fl
            if rm == K.Z3_OP_FPA_RM_TOWARD_POSITIVE: return -z3.ToReal(z3.ToInt(-x))
            if rm == K.Z3_OP_FPA_RM_TOWARD_ZERO: return z3.If(x >= 0, fl, -z3.ToReal(z3.ToInt(-x)))
            if rm == K.Z3_OP_FPA_RM_NEAREST_TIES_TO_AWAY: return z3.If(x >= 0, z3.ToReal(z3.ToInt(x + 0.5)), -z3.ToReal(z3.ToInt(-x + 0.5)))
            raise Unsupported('erase: roundToIntegral ties-to-even')
        if d == K.Z3_OP_ITE: return z3.If(s.bool(a[0]), s.fp(a[1]), s.fp(a[2]))
        if d == K.Z3_OP_FPA_TO_FP:
            if len(a) == 1: return s.bits(a[0])
            if len(a) == 2 and z3.is_fp(a[1]): return s.fp(a[1])           # fpext / fptrunc
            if len(a) == 2 and z3.is_bv(a[1]): return z3.ToReal(z3.BV2Int(a[1], is_signed=True))
            raise Unsupported('erase: to_fp form')
        if d == K.Z3_OP_FPA_TO_FP_UNSIGNED: return z3.ToReal(z3.BV2Int(a[1], is_signed=False))
        if d == K.Z3_OP_UNINTERPRETED:
            nm = t.decl().name()
            if not a: raise Unsupported('erase: FP constant symbol ' + nm)
            if nm.startswith('x86_'): s.approx_ufs.add(nm)
            key = (nm, len(a))
            if key not in s.ufs: s.ufs[key] = z3.Function('R_' + nm, *([z3.RealSort()] * (len(a) + 1)))
            return s.ufs[key](*[s.fp(x) for x in a])
        raise Unsupported('erase: FP operator %s' % t.decl().name())
    # ---- bit-vector terms that carry an IEEE image
    def bits(s, b):
        k = ('b', b.get_id())
        if k in s.memo: return s.memo[k][1]
        r = s._bits(b); s.memo[k] = (b, r); return r
    def _mask_cond(s, m):
        """m == ite(c, all-ones, 0) (possibly nested per lane already split) -> c"""
        if z3.is_app_of(m, z3.Z3_OP_ITE):
            c, x, y = m.arg(0), z3.simplify(m.arg(1)), z3.simplify(m.arg(2))
            if z3.is_bv_value(x) and z3.is_bv_value(y):
                w = m.size(); ones = (1 << w) - 1
                if x.as_long() == ones and y.as_long() == 0: return s.bool(c)
                if x.as_long() == 0 and y.as_long() == ones: return z3.Not(s.bool(c))
        if z3.is_app_of(m, z3.Z3_OP_BNOT):
            c = s._mask_cond(m.arg(0)); return None if c is None else z3.Not(c)
        return None
    def _bits(s, b):
        w = b.size()
        if z3.is_bv_value(b):
            return s.fp(z3.simplify(z3.fpBVToFP(b, FSORT[w])))
        if z3.is_const(b) and b.decl().kind() == z3.Z3_OP_UNINTERPRETED: return s.var(b)
        d = b.decl().kind(); a = [b.arg(i) for i in range(b.num_args())]
        if d == z3.Z3_OP_FPA_TO_IEEE_BV: return s.fp(a[0])
        if d == z3.Z3_OP_ITE: return z3.If(s.bool(a[0]), s.bits(a[1]), s.bits(a[2]))
        if d == z3.Z3_OP_BAND and len(a) == 2:
            for x, m in ((a[0], a[1]), (a[1], a[0])):
                ms = z3.simplify(m)
                if z3.is_bv_value(ms) and ms.as_long() == (1 << (w - 1)) - 1:
                    r = s.bits(x); return z3.If(r >= 0, r, -r)
                if z3.is_bv_value(ms) and ms.as_long() == (1 << w) - 1: return s.bits(x)
                c = s._mask_cond(m)
                if c is not None: return z3.If(c, s.bits(x), z3.RealVal(0))
        if d == z3.Z3_OP_BXOR and len(a) == 2:
            for x, m in ((a[0], a[1]), (a[1], a[0])):
                ms = z3.simplify(m)
                if z3.is_bv_value(ms) and ms.as_long() == 1 << (w - 1): return -s.bits(x)
                if z3.is_bv_value(ms) and ms.as_long() == 0: return s.bits(x)
            for x, m in ((a[0], a[1]), (a[1], a[0])):
                # conditional sign flip: x ^ (mask built from a few conditions)
                cs = s._conds_only(m)
                if cs:
                    def rec(i, mm):
                        if i == len(cs):
                            v = z3.simplify(mm)
                            if not z3.is_bv_value(v): raise Unsupported('erase: xor mask did not reduce')
                            if v.as_long() == 0: return s.bits(x)
                            if v.as_long() == 1 << (w - 1): return -s.bits(x)
                            raise Unsupported('erase: xor with constant %#x' % v.as_long())
                        c = cs[i]
                        return z3.If(s.bool(c), rec(i + 1, z3.substitute(mm, (c, z3.BoolVal(True)))), rec(i + 1, z3.substitute(mm, (c, z3.BoolVal(False)))))
                    return rec(0, m)
        if d == z3.Z3_OP_BOR and len(a) == 2:
            # (x & m) | (y & ~m)
            def split(t):
                if z3.is_app_of(t, z3.Z3_OP_BAND) and t.num_args() == 2:
                    for x, m in ((t.arg(0), t.arg(1)), (t.arg(1), t.arg(0))):
                        c = s._mask_cond(m)
                        if c is not None: return c, x
                return None
            p, q = split(a[0]), split(a[1])
            if p and q: return z3.If(p[0], s.bits(p[1]), s.bits(q[1]))
        if d == z3.Z3_OP_EXTRACT or d == z3.Z3_OP_CONCAT:
            bs = z3.simplify(b)
            if not bs.eq(b): return s.bits(bs)
        r = s._case_split(b)
        if r is not None: return r
        raise Unsupported('erase: bit-vector pattern %s' % b.decl().name())
    def _conds_only(s, b):
        """conditions of a bit-vector term that is built only from constants selected by ite conditions (else None)"""
        conds = []; seen = set(); st = [b]
        while st:
            x = st.pop()
            if x.get_id() in seen: continue
            seen.add(x.get_id())
            if z3.is_bv_value(x): continue
            if z3.is_app_of(x, z3.Z3_OP_ITE) and z3.is_bv(x):
                c = x.arg(0)
                if not any(c.eq(q) for q in conds): conds.append(c)
                st.append(x.arg(1)); st.append(x.arg(2)); continue
            if z3.is_bv(x) and x.num_args() > 0 and x.decl().kind() in (z3.Z3_OP_CONCAT, z3.Z3_OP_EXTRACT, z3.Z3_OP_BAND, z3.Z3_OP_BOR, z3.Z3_OP_BXOR, z3.Z3_OP_BNOT, z3.Z3_OP_BSHL, z3.Z3_OP_BLSHR):
                st.extend(x.children()); continue
            return None
        return conds if conds and len(conds) <= 6 else None
    def _case_split(s, b):
        """bit pattern assembled from constants selected by a few Boolean conditions (sign()/mask construction): enumerate the conditions"""
        conds = []; seen = set(); st = [b]
        while st:
            x = st.pop()
            if x.get_id() in seen: continue
            seen.add(x.get_id())
            if z3.is_bv_value(x): continue
            if z3.is_app_of(x, z3.Z3_OP_ITE) and z3.is_bv(x):
                c = x.arg(0)
                if not any(c.eq(q) for q in conds): conds.append(c)
                st.append(x.arg(1)); st.append(x.arg(2)); continue
            if z3.is_bv(x) and x.num_args() > 0 and x.decl().kind() in (z3.Z3_OP_CONCAT, z3.Z3_OP_EXTRACT, z3.Z3_OP_BAND, z3.Z3_OP_BOR, z3.Z3_OP_BXOR, z3.Z3_OP_BNOT, z3.Z3_OP_BSHL, z3.Z3_OP_BLSHR, z3.Z3_OP_BADD, z3.Z3_OP_BSUB):
                st.extend(x.children()); continue
            return None
        if not conds or len(conds) > 6: return None
        w = b.size()
        def rec(i, t):
            if i == len(conds):
                v = z3.simplify(t)
                if not z3.is_bv_value(v): raise Unsupported('erase: case split did not reduce')
                return s.fp(z3.simplify(z3.fpBVToFP(v, FSORT[w])))
            c = conds[i]
            return z3.If(s.bool(c), rec(i + 1, z3.substitute(t, (c, z3.BoolVal(True)))), rec(i + 1, z3.substitute(t, (c, z3.BoolVal(False)))))
        return rec(0, b)
    # ---- Bool
    def bool(s, t):
        k = ('B', t.get_id())
        if k in s.memo: return s.memo[k][1]
        r = s._bool(t); s.memo[k] = (t, r); return r
    def _bool(s, t):
        if z3.is_true(t) or z3.is_false(t): return t
        d = t.decl().kind(); a = [t.arg(i) for i in range(t.num_args())]
        K = z3
        if d == K.Z3_OP_AND: return z3.And(*[s.bool(x) for x in a])
        if d == K.Z3_OP_OR: return z3.Or(*[s.bool(x) for x in a])
        if d == K.Z3_OP_NOT: return z3.Not(s.bool(a[0]))
        if d == K.Z3_OP_ITE: return z3.If(s.bool(a[0]), s.bool(a[1]), s.bool(a[2]))
        if d == K.Z3_OP_FPA_LT: return s.fp(a[0]) < s.fp(a[1])
        if d == K.Z3_OP_FPA_LE: return s.fp(a[0]) <= s.fp(a[1])
        if d == K.Z3_OP_FPA_GT: return s.fp(a[0]) > s.fp(a[1])
        if d == K.Z3_OP_FPA_GE: return s.fp(a[0]) >= s.fp(a[1])
        if d == K.Z3_OP_FPA_EQ: return s.fp(a[0]) == s.fp(a[1])
        if d in (K.Z3_OP_FPA_IS_NAN, K.Z3_OP_FPA_IS_INF): return z3.BoolVal(False)
        if d == K.Z3_OP_FPA_IS_ZERO: return s.fp(a[0]) == 0
        if d == K.Z3_OP_FPA_IS_NEGATIVE: return s.fp(a[0]) < 0
        if d == K.Z3_OP_FPA_IS_POSITIVE: return s.fp(a[0]) >= 0
        if d in (K.Z3_OP_FPA_IS_NORMAL,): return s.fp(a[0]) != 0
        if d == K.Z3_OP_FPA_IS_SUBNORMAL: return z3.BoolVal(False)
        if d == K.Z3_OP_EQ:
            if z3.is_fp(a[0]): return s.fp(a[0]) == s.fp(a[1])
            if z3.is_bool(a[0]): return s.bool(a[0]) == s.bool(a[1])
            if z3.is_bv(a[0]):
                # i1 / mask comparisons produced by the executor: (ite(c,1,0) == 1)
                for x, y in ((a[0], a[1]), (a[1], a[0])):
                    ys = z3.simplify(y)
                    if z3.is_bv_value(ys) and z3.is_app_of(x, K.Z3_OP_ITE):
                        c, p, q = x.arg(0), z3.simplify(x.arg(1)), z3.simplify(x.arg(2))
                        if z3.is_bv_value(p) and z3.is_bv_value(q):
                            if p.as_long() == ys.as_long() and q.as_long() != ys.as_long(): return s.bool(c)
                            if q.as_long() == ys.as_long() and p.as_long() != ys.as_long(): return z3.Not(s.bool(c))
                            return z3.BoolVal(p.as_long() == ys.as_long())
        if d in (K.Z3_OP_SLEQ, K.Z3_OP_SLT, K.Z3_OP_SGEQ, K.Z3_OP_SGT) and len(a) == 2:
            # sign-bit tests on an IEEE image (movemask): 0 <= bits  <=>  value >= 0 (the sign of zero is not modelled once rounding is erased)
            x, y = z3.simplify(a[0]), z3.simplify(a[1])
            def isz(v): return z3.is_bv_value(v) and v.as_long() == 0
            try:
                if isz(x) and d == K.Z3_OP_SLEQ: return s.bits(a[1]) >= 0
                if isz(x) and d == K.Z3_OP_SGT: return s.bits(a[1]) < 0
                if isz(y) and d == K.Z3_OP_SLT: return s.bits(a[0]) < 0
                if isz(y) and d == K.Z3_OP_SGEQ: return s.bits(a[0]) >= 0
            except Unsupported: pass
        if d == K.Z3_OP_DISTINCT and len(a) == 2: return z3.Not(s._bool(a[0] == a[1]))
        r = s._bool_case_split(t)
        if r is not None: return r
        raise Unsupported('erase: Bool operator %s' % t.decl().name())
    def _bool_case_split(s, t):
        """Bool over bit-vector terms that depend only on a few FP conditions (movemask tests): enumerate the conditions"""
        conds = []; seen = set(); st = list(t.children())
        while st:
            x = st.pop()
            if x.get_id() in seen: continue
            seen.add(x.get_id())
            if z3.is_bv_value(x): continue
            if z3.is_app_of(x, z3.Z3_OP_ITE) and z3.is_bv(x):
                c = x.arg(0)
                if not any(c.eq(q) for q in conds): conds.append(c)
                st.append(x.arg(1)); st.append(x.arg(2)); continue
            if z3.is_bv(x) and x.num_args() > 0 and x.decl().kind() != z3.Z3_OP_UNINTERPRETED and x.decl().kind() != z3.Z3_OP_FPA_TO_IEEE_BV:
                st.extend(x.children()); continue
            return None
        if not conds or len(conds) > 6: return None
        def rec(i, u):
            if i == len(conds):
                v = z3.simplify(u)
                if not (z3.is_true(v) or z3.is_false(v)): raise Unsupported('erase: Bool case split did not reduce')
                return v
            c = conds[i]
            return z3.If(s.bool(c), rec(i + 1, z3.substitute(u, (c, z3.BoolVal(True)))), rec(i + 1, z3.substitute(u, (c, z3.BoolVal(False)))))
        return rec(0, t)
