"""External function / intrinsic models for the prototype executor."""
import z3, re
from irsym import *

def _uf(ex, name, sorts):
    key = (name, tuple(str(s) for s in sorts))
    if key not in ex.ufs: ex.ufs[key] = z3.Function(name, *sorts)
    return ex.ufs[key]

FP1 = {  # name -> (lambda fp: fp)  exact IEEE operations
    'floor': lambda x: z3.fpRoundToIntegral(RTN, x), 'ceil': lambda x: z3.fpRoundToIntegral(RTP, x),
    'trunc': lambda x: z3.fpRoundToIntegral(RTZ, x), 'round': lambda x: z3.fpRoundToIntegral(RNA, x),
    'rint': lambda x: z3.fpRoundToIntegral(RNE, x), 'nearbyint': lambda x: z3.fpRoundToIntegral(RNE, x),
    'roundeven': lambda x: z3.fpRoundToIntegral(RNE, x), 'sqrt': lambda x: z3.fpSqrt(RNE, x), 'fabs': lambda x: z3.fpAbs(x),
}
TRANSC = set('sin cos tan asin acos atan atan2 sinh cosh tanh asinh acosh atanh exp exp2 log log2 log10 pow cbrt expm1 log1p hypot'.split())

def base_name(name):
    n = name.lstrip('@')
    m = re.fullmatch(r'llvm\.([a-z0-9_.]+?)\.(f32|f64|v\d+f32|v\d+f64|i\d+|v\d+i\d+)(\..*)?', n)
    if m: return m.group(1), True
    if n.startswith('llvm.'): return n[5:], True
    for suf in ('f',):
        if n.endswith(suf) and n[:-1] in set(FP1) | TRANSC | {'fmod', 'nextafter', 'ldexp', 'frexp', 'modf', 'fma', 'fmin', 'fmax', 'copysign'}: return n[:-1], False
    return n, False

def external(ex, name, I, args, mem):
    b, intr = base_name(name)
    rty = ex.mod.resolve(I.ty)
    if b.startswith('lifetime') or b.startswith('dbg') or b in ('assume', 'experimental.noalias.scope.decl', 'donothing'): return None
    if b.startswith('memcpy') or b.startswith('memmove'):
        dst, src, n = args[0], args[1], z3.simplify(args[2])
        if not z3.is_bv_value(n): raise Unsupported('symbolic memcpy length')
        n = n.as_long()
        if n: mem.write(dst.obj, dst.off, mem.read(src.obj, src.off, n))
        return None
    if b.startswith('memset'):
        dst, v, n = args[0], z3.simplify(args[1]), z3.simplify(args[2]); n = n.as_long()
        mem.write(dst.obj, dst.off, [(v, 0)] * n); return None
    if b in ('ubsantrap', 'trap') or name in ('@abort', '@__assert_fail'):
        ex.obligations.append(('trap', ex.cur_cond, 'call ' + name)); return None
    # ---- integer intrinsics
    if b in ('ctpop', 'ctlz', 'cttz', 'bswap', 'bitreverse', 'abs', 'smax', 'smin', 'umax', 'umin', 'fshl', 'fshr') or b.endswith('.with.overflow') or b.endswith('.sat'):
        return ex.lift(lambda t, *xs: int_intr(ex, b, t, xs), I.args[0].ty, *args[:3 if b.startswith('fsh') else (1 if b in ('ctpop', 'bswap', 'bitreverse', 'ctlz', 'cttz', 'abs') else 2)])
    # ---- float
    if isinstance(rty, VecTy) and isinstance(ex.mod.resolve(rty.el), FloatTy):
        if b.startswith('x86.'): return x86(ex, b, rty, args)
        return [fcall(ex, b, ex.mod.resolve(rty.el), [a[i] if isinstance(a, list) else a for a in args], mem) for i in range(rty.n)]
    if b.startswith('x86.'): return x86(ex, b, rty, args)
    if isinstance(rty, FloatTy):
        return fcall(ex, b, rty, args, mem)
    raise Unsupported('external ' + name)

def int_intr(ex, b, ty, xs):
    n = ty.n; x = xs[0]
    if b == 'ctpop':
        r = bv(0, n)
        for i in range(n): r = r + z3.ZeroExt(n - 1, z3.Extract(i, i, x))
        return r
    if b == 'ctlz':
        r = bv(n, n)
        for i in range(n): r = z3.If(z3.Extract(i, i, x) == 1, bv(n - 1 - i, n), r)
        return r
    if b == 'cttz':
        r = bv(n, n)
        for i in range(n - 1, -1, -1): r = z3.If(z3.Extract(i, i, x) == 1, bv(i, n), r)
        return r
    if b == 'bswap': return z3.Concat(*[z3.Extract(8 * i + 7, 8 * i, x) for i in range(n // 8)])
    if b == 'bitreverse': return z3.Concat(*[z3.Extract(i, i, x) for i in range(n)])
    if b == 'abs': return z3.If(x < 0, -x, x)
    if b == 'smax': return z3.If(x > xs[1], x, xs[1])
    if b == 'smin': return z3.If(x < xs[1], x, xs[1])
    if b == 'umax': return z3.If(z3.UGT(x, xs[1]), x, xs[1])
    if b == 'umin': return z3.If(z3.ULT(x, xs[1]), x, xs[1])
    if b in ('fshl', 'fshr'):
        a, c, sh = xs; sh = z3.URem(sh, bv(n, n)); cc = z3.Concat(a, c); sh2 = z3.ZeroExt(n, sh)
        return z3.Extract(2 * n - 1, n, cc << sh2) if b == 'fshl' else z3.Extract(n - 1, 0, z3.LShR(cc, sh2))
    if b.endswith('.with.overflow'):
        y = xs[1]; o = b.split('.')[0]
        if o == 'sadd': r = x + y; ov = Not(And(z3.BVAddNoOverflow(x, y, True), z3.BVAddNoUnderflow(x, y)))
        elif o == 'uadd': r = x + y; ov = Not(z3.BVAddNoOverflow(x, y, False))
        elif o == 'ssub': r = x - y; ov = Not(And(z3.BVSubNoOverflow(x, y), z3.BVSubNoUnderflow(x, y, True)))
        elif o == 'usub': r = x - y; ov = z3.ULT(x, y)
        elif o == 'smul': r = x * y; ov = Not(And(z3.BVMulNoOverflow(x, y, True), z3.BVMulNoUnderflow(x, y)))
        elif o == 'umul': r = x * y; ov = Not(z3.BVMulNoOverflow(x, y, False))
        else: raise Unsupported(b)
        return [r, c2b(ov)]
    raise Unsupported(b)

def fcall(ex, b, rty, args, mem):
    n = rty.n; srt = FSORT[n]
    if ex.fmode == 'real': return rcall(ex, b, n, args)
    if b in FP1: return FV(n, fp=FP1[b](args[0].fp))
    if b in ('fma',): return FV(n, fp=z3.fpFMA(RNE, args[0].fp, args[1].fp, args[2].fp))
    if b == 'fmuladd': return FV(n, fp=z3.fpAdd(RNE, z3.fpMul(RNE, args[0].fp, args[1].fp), args[2].fp))
    if b in ('minnum', 'fmin'):
        x, y = args[0].fp, args[1].fp; return FV(n, fp=z3.If(z3.fpIsNaN(x), y, z3.If(z3.fpIsNaN(y), x, z3.If(z3.fpLT(y, x), y, x))))
    if b in ('maxnum', 'fmax'):
        x, y = args[0].fp, args[1].fp; return FV(n, fp=z3.If(z3.fpIsNaN(x), y, z3.If(z3.fpIsNaN(y), x, z3.If(z3.fpGT(y, x), y, x))))
    if b == 'copysign':
        return FV(n, bits=(args[0].bits & bv((1 << (n - 1)) - 1, n)) | (args[1].bits & bv(1 << (n - 1), n)))
    if b == 'nextafter': return FV(n, bits=nextafter_bits(args[0], args[1], n))
    if b == 'modf':      # (C11) bit-level libm models, validated against the native libm on every run
        fr, ip = modf_model(args[0], n); ex.store(mem, args[1], ip, rty); return fr
    if b == 'frexp':
        m, e = frexp_model(ex, args[0], n); ex.store(mem, args[1], e, IntTy(32)); return m
    if b == 'ldexp': return ldexp_model(args[0], args[1], n)
    if b == 'fmod': return FV(n, fp=z3.fpRem(args[0].fp, args[1].fp)) if False else FV(n, fp=_uf(ex, 'fmod%d' % n, [srt, srt, srt])(args[0].fp, args[1].fp))
    if b in TRANSC:
        f = _uf(ex, '%s%d' % (b, n), [srt] * (len(args) + 1))
        ex.__dict__.setdefault('call_log', []).append((b, n, [a.fp for a in args], ex.cur_cond))     # (additive, C13) libm call sites with their path condition, for domain claims
        return FV(n, fp=f(*[a.fp for a in args]))
    raise Unsupported('float call ' + b)

def nextafter_bits(x, y, n):
    """IEEE nextafter on bit patterns (sign-magnitude stepping)."""
    xb, yb = x.bits, y.bits; xf, yf = x.fp, y.fp
    one = bv(1, n); sign = bv(1 << (n - 1), n)
    isz = z3.fpIsZero(xf)
    up = z3.fpLT(xf, yf)
    xpos = (xb & sign) == 0
    step = z3.If(isz, z3.If(up, one, sign | one), z3.If(up == xpos, xb + one, xb - one))
    return z3.If(z3.Or(z3.fpIsNaN(xf), z3.fpIsNaN(yf)), bv((1 << (n - 1)) - 1 if False else (0x7fc00000 if n == 32 else 0x7ff8000000000000), n), z3.If(z3.fpEQ(xf, yf), yb, step))

def _fmt(n): return (8, 23) if n == 32 else (11, 52)
def modf_model(x, n):
    """C modf: integral part = trunc(x) (inf -> inf, NaN -> NaN); fractional part = x - trunc(x) (exact) carrying the sign of x
    (+-inf -> +-0, NaN -> NaN).  returns (frac, intpart)"""
    xf = x.fp; ip = z3.fpRoundToIntegral(RTZ, xf)
    sign = x.bits & bv(1 << (n - 1), n); mag = bv((1 << (n - 1)) - 1, n)
    fr = FV(n, fp=z3.fpSub(RNE, xf, ip))
    return FV(n, bits=z3.If(z3.fpIsInf(xf), sign, z3.If(z3.fpIsNaN(xf), x.bits, (fr.bits & mag) | sign))), FV(n, fp=ip)
def frexp_model(ex, x, n):
    """C frexp on bit patterns: x = m * 2^e with 0.5 <= |m| < 1; zero -> (x, 0); inf/NaN -> (x, unspecified e)"""
    eb, mb = _fmt(n); bias = (1 << (eb - 1)) - 1; b = x.bits
    sign = z3.Extract(n - 1, n - 1, b); E = z3.Extract(n - 2, mb, b); M = z3.Extract(mb - 1, 0, b)
    half = bv(bias - 1, eb)
    h = bv(0, 32); Mn = M                      # subnormal: h = index of the highest set mantissa bit, Mn = mantissa shifted so that bit lands on the hidden position
    for i in range(mb):
        c = z3.Extract(i, i, M) == 1
        h = z3.If(c, bv(i, 32), h); Mn = z3.If(c, M << (mb - i), Mn)
    e_norm = z3.ZeroExt(32 - eb, E) - bv(bias - 1, 32); e_sub = h - bv(bias + mb - 2, 32)
    isz = z3.And(E == 0, M == 0); sub = z3.And(E == 0, M != 0); spec = E == bv((1 << eb) - 1, eb)
    m = z3.If(z3.Or(isz, spec), b, z3.Concat(sign, half, z3.If(sub, Mn, M)))
    e = z3.If(isz, bv(0, 32), z3.If(spec, _uf(ex, 'frexp_unspec_e%d' % n, [z3.BitVecSort(n), z3.BitVecSort(32)])(b), z3.If(sub, e_sub, e_norm)))   # unspecified but deterministic (same x => same e)
    return FV(n, bits=m), e
def ldexp_model(x, e, n):
    """C ldexp/scalbn: x * 2^e rounded once (RNE) to the format, overflow -> inf, gradual underflow; zero/inf/NaN returned unchanged.
    The scaling is done exactly in a format with 4 more exponent bits (exponent-field addition, no multiplier)."""
    eb, mb = _fmt(n); web = eb + 4; ws = z3.FPSort(web, mb + 1); xf = x.fp
    bias = (1 << (eb - 1)) - 1; L = 2 * (bias + mb) + 8
    ec = z3.If(e > L, bv(L, 32), z3.If(e < -L, bv(-L, 32), e))
    wb = z3.fpToIEEEBV(z3.fpFPToFP(RNE, xf, ws))
    wexp = z3.Extract(web + mb - 1, mb, wb) + z3.Extract(web - 1, 0, ec)
    scaled = z3.fpBVToFP(z3.Concat(z3.Extract(web + mb, web + mb, wb), wexp, z3.Extract(mb - 1, 0, wb)), ws)
    r = FV(n, fp=z3.fpFPToFP(RNE, scaled, FSORT[n]))
    return FV(n, bits=z3.If(z3.Or(z3.fpIsZero(xf), z3.fpIsInf(xf), z3.fpIsNaN(xf)), x.bits, r.bits))

def rcall(ex, b, n, args):
    x = args[0].r
    if b == 'sqrt':
        memo = getattr(ex, 'sqrt_memo', None)      # opt-in (property module sets ex.sqrt_memo = {}): sqrt of a syntactically identical argument reuses its variable (congruence)
        if memo is not None:
            if x.get_id() in memo:
                ex.oblige('domain', x < 0, 'sqrt of negative'); return RV(n, memo[x.get_id()][1])
        y = ex.fresh_real('sqrt')
        if memo is not None: memo[x.get_id()] = (x, y)
        ex.axioms.append(z3.And(y >= 0, y * y == x)); ex.oblige('domain', x < 0, 'sqrt of negative')
        ex.__dict__.setdefault('sqrt_log', []).append((x, y)); return RV(n, y)      # (argument, variable) in execution order, for lemma chains
    if b == 'fabs': return RV(n, z3.If(x >= 0, x, -x))
    if b == 'floor': return RV(n, z3.ToReal(z3.ToInt(x)))
    if b == 'ceil': return RV(n, -z3.ToReal(z3.ToInt(-x)))
    if b == 'trunc': return RV(n, z3.If(x >= 0, z3.ToReal(z3.ToInt(x)), -z3.ToReal(z3.ToInt(-x))))
    if b == 'fmod':
        y = args[1].r; r = ex.fresh_real('fmod'); ex.nfresh += 1; k = z3.Int('fmodq!%d' % ex.nfresh)
        ay = z3.If(y >= 0, y, -y)
        ex.axioms.append(z3.And(x == z3.ToReal(k) * y + r, z3.If(x >= 0, z3.And(r >= 0, r < ay), z3.And(r <= 0, r > -ay))))
        ex.oblige('domain', y == 0, 'fmod by zero'); return RV(n, r)
    if b in ('fma', 'fmuladd'): return RV(n, x * args[1].r + args[2].r)
    if b in ('minnum', 'fmin'): return RV(n, z3.If(args[1].r < x, args[1].r, x))
    if b in ('maxnum', 'fmax'): return RV(n, z3.If(args[1].r > x, args[1].r, x))
    if b in TRANSC:
        # Ackermannised: one real variable per (function, argument polynomial) plus true facts only - see engine/realtrig.py
        # (hooks for property modules: realtrig.trig_var / real_pi / trig_sum / map_pi_literals, through res.ex)
        import realtrig
        return RV(n, realtrig.call(ex, b, tuple(a.r for a in args)))
    raise Unsupported('real call ' + b)

def x86(ex, b, rty, args):
    F = FSORT[32]
    def fmin(x, y): return FV(32, fp=z3.If(z3.fpLT(x.fp, y.fp), x.fp, y.fp))   # x86 semantics: returns second operand unless a<b
    def fmax(x, y): return FV(32, fp=z3.If(z3.fpGT(x.fp, y.fp), x.fp, y.fp))
    if b in ('x86.sse.min.ps', 'x86.sse.max.ps'):
        f = fmin if 'min' in b else fmax; return [f(x, y) for x, y in zip(args[0], args[1])]
    if b in ('x86.sse.min.ss', 'x86.sse.max.ss'):
        f = fmin if 'min' in b else fmax; return [f(args[0][0], args[1][0])] + list(args[0][1:])
    if b in ('x86.sse.rcp.ps', 'x86.sse.rsqrt.ps', 'x86.sse.rcp.ss', 'x86.sse.rsqrt.ss'):
        nm = b.split('.')[2]; f = _uf(ex, 'x86_' + nm, [F, F])
        n = 1 if b.endswith('ss') else len(args[0])
        out = []
        for i, x in enumerate(args[0]):
            if i < n:
                r = f(x.fp); out.append(FV(32, fp=r))
                # Intel contract: |relative error| <= 1.5 * 2^-12 for positive normal inputs
                exact = z3.fpDiv(RNE, z3.FPVal(1.0, F), x.fp if nm == 'rcp' else z3.fpSqrt(RNE, x.fp))
                eps = z3.FPVal(1.5 * 2 ** -12, F)
                ex.axioms.append(z3.Implies(z3.And(z3.fpIsNormal(x.fp), z3.fpIsPositive(x.fp)),
                                            z3.fpLEQ(z3.fpAbs(z3.fpSub(RNE, r, exact)), z3.fpMul(RNE, eps, exact))))
            else: out.append(x)
        return out
    if b == 'x86.sse.cmp.ss' or b == 'x86.sse.cmp.ps':
        imm = z3.simplify(args[2]).as_long(); n = 1 if b.endswith('ss') else len(args[0]); out = []
        for i, (x, y) in enumerate(zip(args[0], args[1])):
            if i >= n: out.append(x); continue
            uno = z3.Or(z3.fpIsNaN(x.fp), z3.fpIsNaN(y.fp))
            c = [z3.fpEQ(x.fp, y.fp), z3.fpLT(x.fp, y.fp), z3.fpLEQ(x.fp, y.fp), uno, z3.Not(z3.fpEQ(x.fp, y.fp)), z3.Not(z3.fpLT(x.fp, y.fp)), z3.Not(z3.fpLEQ(x.fp, y.fp)), z3.Not(uno)][imm & 7]
            out.append(FV(32, bits=z3.If(c, bv(0xffffffff, 32), bv(0, 32))))
        return out
    if b == 'x86.sse41.dpps':
        imm = z3.simplify(args[2]).as_long(); x, y = args[0], args[1]
        p = [z3.fpMul(RNE, x[i].fp, y[i].fp) if imm & (16 << i) else z3.FPVal(0.0, F) for i in range(4)]
        # Intel pseudo-code: (p0+p1)+(p2+p3)
        sm = z3.fpAdd(RNE, z3.fpAdd(RNE, p[0], p[1]), z3.fpAdd(RNE, p[2], p[3]))
        return [FV(32, fp=sm) if imm & (1 << i) else FV(32, fp=z3.FPVal(0.0, F)) for i in range(4)]
    if b in ('x86.sse41.round.ps', 'x86.sse41.round.ss'):
        imm = z3.simplify(args[-1]).as_long(); rm = {0: RNE, 1: RTN, 2: RTP, 3: RTZ}[imm & 3]
        if imm & 4: rm = RNE   # MXCSR default
        src = args[0] if b.endswith('ps') else args[1]
        n = len(src) if b.endswith('ps') else 1
        return [FV(32, fp=z3.fpRoundToIntegral(rm, v.fp)) if i < n else args[0][i] for i, v in enumerate(src)]
    if b in ('x86.sse2.cvtps2dq', 'x86.sse2.cvttps2dq'):
        rm = RNE if b.endswith('cvtps2dq') else RTZ; out = []
        for v in args[0]:
            inr = z3.And(z3.Not(z3.fpIsNaN(v.fp)), z3.fpLT(z3.fpRoundToIntegral(rm, v.fp), z3.FPVal(2.0 ** 31, F)), z3.fpGEQ(z3.fpRoundToIntegral(rm, v.fp), z3.FPVal(-2.0 ** 31, F)))
            out.append(z3.If(inr, z3.fpToSBV(rm, v.fp, z3.BitVecSort(32)), bv(0x80000000, 32)))
        return out
    m_ = re.fullmatch(r'x86\.sse2?\.u?comi(eq|lt|le|gt|ge|neq)\.s[sd]', b)
    if m_:
        x, y = args[0][0].fp, args[1][0].fp; uno = z3.Or(z3.fpIsNaN(x), z3.fpIsNaN(y))
        c = {'eq': z3.And(z3.Not(uno), z3.fpEQ(x, y)), 'lt': z3.fpLT(x, y), 'le': z3.fpLEQ(x, y), 'gt': z3.fpGT(x, y), 'ge': z3.fpGEQ(x, y), 'neq': z3.Or(uno, z3.Not(z3.fpEQ(x, y)))}[m_.group(1)]
        return z3.If(c, bv(1, 32), bv(0, 32))
    if b in ('x86.sse3.hadd.ps', 'x86.sse3.hsub.ps'):
        f = z3.fpAdd if 'hadd' in b else z3.fpSub; x, y = args[0], args[1]
        return [FV(32, fp=f(RNE, x[0].fp, x[1].fp)), FV(32, fp=f(RNE, x[2].fp, x[3].fp)), FV(32, fp=f(RNE, y[0].fp, y[1].fp)), FV(32, fp=f(RNE, y[2].fp, y[3].fp))]
    if b.startswith('x86.ssse3.psign.'):
        return [z3.If(y < 0, -x, z3.If(y == 0, bv(0, x.size()), x)) for x, y in zip(args[0], args[1])]
    if b in ('x86.sse.movmsk.ps', 'x86.sse2.movmsk.pd'):
        r = bv(0, 32)
        for i, v in enumerate(args[0]):
            n = v.n; r = r | (z3.ZeroExt(31, z3.Extract(n - 1, n - 1, v.bits)) << i)
        return r
    if b == 'x86.sse41.ptestz':
        x, y = args[0], args[1]; return z3.If(z3.And(*[(p & q) == 0 for p, q in zip(x, y)]), bv(1, 32), bv(0, 32))
    if b in ('x86.sse2.packssdw.128', 'x86.sse2.packsswb.128', 'x86.sse2.packuswb.128', 'x86.sse41.packusdw'):
        # saturating narrowing of the lanes of args[0] followed by those of args[1] (Intel SDM PACKSSDW / PACKSSWB / PACKUSWB / PACKUSDW)
        out = []
        for x in list(args[0]) + list(args[1]):
            n = x.size(); h = n // 2
            if 'packss' in b:
                lo_, hi_ = -(1 << (h - 1)), (1 << (h - 1)) - 1
                out.append(z3.If(x < lo_, bv(lo_ & ((1 << h) - 1), h), z3.If(x > hi_, bv(hi_, h), z3.Extract(h - 1, 0, x))))
            else:
                hi_ = (1 << h) - 1
                out.append(z3.If(x < 0, bv(0, h), z3.If(x > hi_, bv(hi_, h), z3.Extract(h - 1, 0, x))))
        return out
    raise Unsupported('x86 intrinsic ' + b)
