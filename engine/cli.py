import os, sys, argparse
HERE = os.path.dirname(os.path.abspath(__file__)); sys.path.insert(0, HERE); sys.path.insert(0, os.path.dirname(HERE))
def main():
    ap = argparse.ArgumentParser()
    ap.add_argument('pid'); ap.add_argument('--tier', default=os.environ.get('VERIF_TIER', 'quick'), choices=['quick', 'thorough'])
    ap.add_argument('--replay'); ap.add_argument('--only'); ap.add_argument('-v', action='store_true'); ap.add_argument('-j', type=int)
    a = ap.parse_args()
    seed = int(os.environ.get('VERIF_SEED', '1'))
    import runner
    rc = runner.run_property(a.pid.upper(), a.tier, seed, replay=a.replay, only=a.only, nproc=a.j, verbose=a.v)
    sys.stdout.flush()
    os._exit(rc) if False else sys.exit(rc)
main()
