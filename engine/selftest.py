"""engine self-test: a tiny wrapper unit through the whole pipeline (compile, execute symbolically, prove, refute a mutant, replay)"""
import os, sys
HERE = os.path.dirname(os.path.abspath(__file__)); sys.path.insert(0, HERE); sys.path.insert(0, os.path.dirname(HERE))
import z3
from harness import *
U = Unit('selftest', includes=['glm/glm.hpp', 'glm/integer.hpp'])
U.add('bc', [('uint32_t', 1)], [('int', 1)], 'o[0] = glm::bitCount(a[0]);')
U.add('fl', [('float', 1)], [('float', 1)], 'o[0] = glm::floor(a[0]);')
S = Session('SELFTEST', 'quick', 1)
def pc(x): return sum([z3.ZeroExt(31, z3.Extract(i, i, x)) for i in range(32)])
S.check_fn(U, 'bc', lambda i, o: o[0][0] == pc(i[0][0]))
S.check_fn(U, 'fl', lambda i, o: z3.Or(z3.fpIsNaN(o[0][0].fp), o[0][0].fp == z3.fpRoundToIntegral(z3.RTN(), z3.fpBVToFP(i[0][0], z3.Float32()))))
assert not S.violations and not S.inconclusive and not S.engine_errors, (S.violations, S.inconclusive, S.engine_errors)
S2 = Session('SELFTEST', 'quick', 1)
S2.check_fn(U, 'bc', lambda i, o: o[0][0] == pc(i[0][0]) + 1, validate=0)
assert S2.violations, 'mutant spec must be refuted with a natively reproduced counterexample'
print('engine selftest ok: %d obligations' % len(S.records))
