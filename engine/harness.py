"""Harness: wrapper TUs -> clang IR -> symbolic terms -> solver obligations -> native replay -> evidence.

Everything here is regenerated from /repo's working tree on every run (no caching across runs).
"""
import os, sys, json, time, hashlib, subprocess, tempfile, atexit, shutil, ctypes, struct, random, traceback, re, fnmatch
from fractions import Fraction
import z3

HERE = os.path.dirname(os.path.abspath(__file__))
VERIF = os.path.dirname(HERE)
sys.path.insert(0, HERE)
import irsym
from irsym import Module, Exec, Mem, Ptr, FV, RV, IntTy, FloatTy, bv, bv_to_cells, Unsupported, FSORT, RNE, RTZ, RNA, RTP, RTN

REPO = os.environ.get('GLM_REPO', '/repo')
_SCR = None
def scratch():
    global _SCR
    if _SCR is None:
        base = os.environ.get('VERIF_SCRATCH')
        if base:
            os.makedirs(base, exist_ok=True); _SCR = base
        else:
            _SCR = tempfile.mkdtemp(prefix='glm-verif.', dir='/var/tmp')
            pid = os.getpid()
            def _rm():
                if os.getpid() == pid: shutil.rmtree(_SCR, ignore_errors=True)
            atexit.register(_rm)
    return _SCR

# ----------------------------------------------------------------------------- C types of wrapper interfaces
CT = {
    'float': ('f', 32, ctypes.c_float), 'double': ('f', 64, ctypes.c_double),
    'int8_t': ('s', 8, ctypes.c_int8), 'uint8_t': ('u', 8, ctypes.c_uint8),
    'int16_t': ('s', 16, ctypes.c_int16), 'uint16_t': ('u', 16, ctypes.c_uint16),
    'int32_t': ('s', 32, ctypes.c_int32), 'uint32_t': ('u', 32, ctypes.c_uint32),
    'int64_t': ('s', 64, ctypes.c_int64), 'uint64_t': ('u', 64, ctypes.c_uint64),
    'int': ('s', 32, ctypes.c_int32), 'unsigned': ('u', 32, ctypes.c_uint32),
    'bool': ('b', 8, ctypes.c_uint8),
}
def ct_kind(c): return CT[c][0]
def ct_bits(c): return CT[c][1]

PRELUDE = r'''
#include <cstdint>
#include <cstddef>
#include <cstring>
#define W extern "C" __attribute__((noinline)) void
namespace vh {
template<glm::length_t L, typename T, glm::qualifier Q> struct LD;
template<typename T, glm::qualifier Q> struct LD<1,T,Q>{ static inline glm::vec<1,T,Q> f(const T* p){ glm::vec<1,T,Q> v; v.x=p[0]; return v; } };
template<typename T, glm::qualifier Q> struct LD<2,T,Q>{ static inline glm::vec<2,T,Q> f(const T* p){ glm::vec<2,T,Q> v; v.x=p[0]; v.y=p[1]; return v; } };
template<typename T, glm::qualifier Q> struct LD<3,T,Q>{ static inline glm::vec<3,T,Q> f(const T* p){ glm::vec<3,T,Q> v; v.x=p[0]; v.y=p[1]; v.z=p[2]; return v; } };
template<typename T, glm::qualifier Q> struct LD<4,T,Q>{ static inline glm::vec<4,T,Q> f(const T* p){ glm::vec<4,T,Q> v; v.x=p[0]; v.y=p[1]; v.z=p[2]; v.w=p[3]; return v; } };
template<glm::length_t L, typename T, glm::qualifier Q = glm::defaultp> static inline glm::vec<L,T,Q> ldv(const T* p){ return LD<L,T,Q>::f(p); }
template<typename T, typename U, glm::qualifier Q> static inline void stv(U* o, glm::vec<1,T,Q> const& v){ o[0]=v.x; }
template<typename T, typename U, glm::qualifier Q> static inline void stv(U* o, glm::vec<2,T,Q> const& v){ o[0]=v.x; o[1]=v.y; }
template<typename T, typename U, glm::qualifier Q> static inline void stv(U* o, glm::vec<3,T,Q> const& v){ o[0]=v.x; o[1]=v.y; o[2]=v.z; }
template<typename T, typename U, glm::qualifier Q> static inline void stv(U* o, glm::vec<4,T,Q> const& v){ o[0]=v.x; o[1]=v.y; o[2]=v.z; o[3]=v.w; }
template<glm::length_t C, glm::length_t R, typename T, glm::qualifier Q = glm::defaultp> static inline glm::mat<C,R,T,Q> ldm(const T* p){
  glm::mat<C,R,T,Q> m; for(glm::length_t c=0;c<C;++c) m[c] = ldv<R,T,Q>(p + c*R); return m; }
template<glm::length_t C, glm::length_t R, typename T, typename U, glm::qualifier Q> static inline void stm(U* o, glm::mat<C,R,T,Q> const& m){
  for(glm::length_t c=0;c<C;++c) stv(o + c*R, m[c]); }
// quaternions travel as named components [w,x,y,z], independent of memory order
template<typename T, glm::qualifier Q = glm::defaultp> static inline glm::qua<T,Q> ldq(const T* p){ glm::qua<T,Q> q; q.w=p[0]; q.x=p[1]; q.y=p[2]; q.z=p[3]; return q; }
template<typename T, typename U, glm::qualifier Q> static inline void stq(U* o, glm::qua<T,Q> const& q){ o[0]=q.w; o[1]=q.x; o[2]=q.y; o[3]=q.z; }
}
using namespace vh;
'''

BASE_CFLAGS = ['-std=c++17', '-fno-vectorize', '-fno-slp-vectorize', '-ffp-contract=off', '-fno-exceptions',
               '-mllvm', '-inline-threshold=100000', '-w']
UBSAN_FLAGS = ['-fsanitize=undefined,float-cast-overflow,float-divide-by-zero,integer-divide-by-zero',
               '-fno-sanitize=function,vptr,float-divide-by-zero,pointer-overflow', '-fsanitize-trap=all']

class NativeCrash(RuntimeError): pass
_IN_CHILD = [False]
def forked(fn):
    """run fn() in a forked child and return its (picklable) result; NativeCrash if the child is killed by a signal"""
    import pickle, signal
    r, w = os.pipe(); pid = os.fork()
    if pid == 0:
        try:
            os.close(r); _IN_CHILD[0] = True
            try: data = pickle.dumps(('ok', fn()))
            except BaseException as e: data = pickle.dumps(('exc', '%s: %s' % (type(e).__name__, e)))
            mv = memoryview(data)
            while mv: n = os.write(w, mv[:65536]); mv = mv[n:]
        finally: os._exit(0)
    os.close(w); chunks = []
    while True:
        b = os.read(r, 1 << 20)
        if not b: break
        chunks.append(b)
    os.close(r); _, st = os.waitpid(pid, 0)
    if os.WIFSIGNALED(st):
        e = NativeCrash('native execution of the real code was killed by signal %d' % os.WTERMSIG(st)); e.sig = os.WTERMSIG(st); raise e
    if not chunks: raise NativeCrash('native execution child exited without a result (status %d)' % st)
    kind, val = pickle.loads(b''.join(chunks))
    if kind == 'exc': raise RuntimeError(val)
    return val

class Fn:
    def __init__(s, name, ins, outs, body): s.name = name; s.ins = ins; s.outs = outs; s.body = body
    def proto(s):
        ps = ['const %s* %s' % (c, 'abcdefgh'[i]) for i, (c, n) in enumerate(s.ins)]
        ps += ['%s* %s' % (c, (['o'] + ['o%d' % k for k in range(2, 13)])[i]) for i, (c, n) in enumerate(s.outs)]
        return 'W w_%s(%s)' % (s.name, ', '.join(ps))

class Unit:
    """One wrapper translation unit."""
    def __init__(s, name, includes=('glm/glm.hpp',), defines=(), cflags=(), prelude='', experimental=True):
        s.name = name; s.includes = list(includes); s.defines = list(defines); s.cflags = list(cflags)
        s.extra_prelude = prelude; s.fns = {}; s.experimental = experimental
        s._mods = {}; s._lib = None; s._ll = {}
    def add(s, name, ins, outs, body):
        assert name not in s.fns, name
        s.fns[name] = Fn(name, ins, outs, body); return name
    def clone(s, name, defines=None, cflags=None):
        u = Unit(name, s.includes, s.defines if defines is None else defines, s.cflags if cflags is None else cflags, s.extra_prelude, s.experimental)
        u.fns = dict(s.fns); return u
    def source(s):
        out = []
        if s.experimental: out.append('#define GLM_ENABLE_EXPERIMENTAL 1')
        for d in s.defines: out.append('#define %s' % d.replace('=', ' ', 1))
        for i in s.includes: out.append('#include <%s>' % i)
        out.append(PRELUDE); out.append(s.extra_prelude)
        for f in s.fns.values():
            out.append('%s {\n%s\n}' % (f.proto(), f.body))
        return '\n'.join(out) + '\n'
    def _path(s, tag, ext):
        h = hashlib.sha256((s.source() + repr(s.cflags) + tag).encode()).hexdigest()[:12]
        return os.path.join(scratch(), '%s.%s.%s%s' % (s.name, tag.replace(' ', '').replace('-', ''), h, ext))
    def compile_ll(s, opt='-O1', ubsan=False):
        tag = opt + ('.ubsan' if ubsan else '')
        if tag in s._ll: return s._ll[tag]
        src = s._path('src', '.cpp')
        if not os.path.exists(src):
            with open(src, 'w') as f: f.write(s.source())
        ll = s._path(tag, '.ll')
        if not os.path.exists(ll):
            cmd = ['clang++-14', opt] + BASE_CFLAGS + (UBSAN_FLAGS if ubsan else []) + s.cflags + ['-I', REPO, '-S', '-emit-llvm', src, '-o', ll + '.tmp']
            p = subprocess.run(cmd, capture_output=True, text=True)
            if p.returncode != 0:
                raise RuntimeError('clang failed for unit %s:\n%s' % (s.name, p.stderr[-4000:]))
            os.rename(ll + '.tmp', ll)
        s._ll[tag] = ll
        return ll
    def module(s, opt='-O1', ubsan=False):
        tag = opt + ('.ubsan' if ubsan else '')
        if tag not in s._mods:
            s._mods[tag] = Module(open(s.compile_ll(opt, ubsan)).read())
        return s._mods[tag]
    def ll_sha(s, opt='-O1', ubsan=False):
        return hashlib.sha256(open(s.compile_ll(opt, ubsan), 'rb').read()).hexdigest()[:16]
    def native(s, cxx='g++', opt='-O2'):
        key = (cxx, opt)
        if s._lib is None: s._lib = {}
        if key not in s._lib:
            src = s._path('src', '.cpp')
            if not os.path.exists(src):
                with open(src, 'w') as f: f.write(s.source())
            so = s._path('nat' + cxx + opt, '.so')
            if not os.path.exists(so):
                fl = [x for x in s.cflags]
                cmd = [cxx, '-std=c++17', opt, '-ffp-contract=off', '-w', '-shared', '-fPIC'] + fl + ['-I', REPO, src, '-o', so + '.tmp%d' % os.getpid()]
                p = subprocess.run(cmd, capture_output=True, text=True)
                if p.returncode != 0: raise RuntimeError('native build failed for %s:\n%s' % (s.name, p.stderr[-3000:]))
                os.rename(so + '.tmp%d' % os.getpid(), so)
            s._lib[key] = ctypes.CDLL(so)
        return s._lib[key]
    def call_native(s, fname, in_vals, cxx='g++', opt='-O2'):
        """in_vals: list (per input array) of lists of ints (bit patterns). returns list of lists of ints (bit patterns).
        The real code runs in a forked child (unless we already are in one): a changed tree may crash natively (out-of-bounds write, misaligned SIMD store);
        the worker must survive that and report it (NativeCrash) instead of dying."""
        s.native(cxx, opt)
        if not _IN_CHILD[0]: return forked(lambda: s._call_native(fname, in_vals, cxx, opt))
        return s._call_native(fname, in_vals, cxx, opt)
    def _call_native(s, fname, in_vals, cxx='g++', opt='-O2'):
        fn = s.fns[fname]; lib = s.native(cxx, opt); f = getattr(lib, 'w_' + fname)
        bufs = []
        for (c, n), vals in zip(fn.ins, in_vals):
            w = ct_bits(c) // 8
            raw = b''.join(int(v & ((1 << (8 * w)) - 1)).to_bytes(w, 'little') for v in vals)
            bufs.append(ctypes.create_string_buffer(raw, len(raw)))
        obufs = []
        for (c, n) in fn.outs:
            w = ct_bits(c) // 8; obufs.append(ctypes.create_string_buffer(b'\xAA' * (n * w), n * w))
        f.restype = None
        f(*[ctypes.cast(b, ctypes.c_void_p) for b in bufs + obufs])
        res = []
        for (c, n), b in zip(fn.outs, obufs):
            w = ct_bits(c) // 8; raw = b.raw
            res.append([int.from_bytes(raw[i * w:(i + 1) * w], 'little') for i in range(n)])
        return res

def compile_units(units, variants=(('-O1', False),), jobs=16):
    """compile all requested (unit, opt, ubsan) in parallel, then parse in this process."""
    from concurrent.futures import ThreadPoolExecutor
    todo = [(u, o, ub) for u in units for (o, ub) in variants]
    with ThreadPoolExecutor(max_workers=jobs) as tp:
        list(tp.map(lambda t: t[0].compile_ll(t[1], t[2]), todo))
    for u, o, ub in todo: u.module(o, ub)

# ----------------------------------------------------------------------------- symbolic call
class SymResult:
    def __init__(s, ins, outs, ex, fn, unit, mode):
        s.ins = ins; s.outs = outs; s.ex = ex; s.fn = fn; s.unit = unit; s.mode = mode
    @property
    def axioms(s): return list(s.ex.axioms)
    @property
    def obligations(s): return list(s.ex.obligations)

def mkvars(fn, mode='fp', prefix=''):
    ins = []
    for i, (c, n) in enumerate(fn.ins):
        nm = prefix + 'abcdefgh'[i]
        if mode == 'real' and ct_kind(c) == 'f': ins.append([z3.Real('%s%d' % (nm, k)) for k in range(n)])
        else: ins.append([z3.BitVec('%s%d' % (nm, k), ct_bits(c)) for k in range(n)])
    return ins

def input_wellformed(fn, ins):
    """bool arrays hold 0/1 (anything else is UB to load)"""
    hy = []
    for (c, n), terms in zip(fn.ins, ins):
        if ct_kind(c) == 'b': hy += [z3.ULE(t, bv(1, 8)) for t in terms]
    return hy

def sym_call(unit, fname, ins=None, mode='fp', unwind=16, opt='-O1', ubsan=False, track_poison=False, ex=None):
    fn = unit.fns[fname]; mod = unit.module(opt, ubsan)
    if ins is None: ins = mkvars(fn, mode)
    if ex is None:
        ex = Exec(mod, fmode='real' if mode == 'real' else 'fp', unwind=unwind)
    else:
        ex.mod = mod
    ex.track_poison = track_poison
    if ubsan: ex.allow_noreturn = True
    if ubsan: ex.check_align = True          # what -fsanitize=alignment reports: accesses whose IR alignment exceeds what the object guarantees
    mem = Mem(); ptrs = []
    for (c, n), terms in zip(fn.ins, ins):
        k, w, _ = CT[c]; sz = w // 8
        assert len(terms) == n, (fname, c, n, len(terms))
        oid = ex.newobj(mem, n * sz, 'in'); ex.objalign[oid] = sz           # wrapper arrays are only naturally aligned
        for i, t in enumerate(terms):
            if isinstance(t, FV): t = t.bits
            if isinstance(t, RV): t = t.r
            if mode == 'real' and k == 'f':
                rv = RV(w, t); mem.write(oid, i * sz, [(('real', rv), j) for j in range(sz)])
            else:
                mem.write(oid, i * sz, bv_to_cells(t))
        ptrs.append(Ptr(oid, 0))
    oobjs = []
    for (c, n) in fn.outs:
        k, w, _ = CT[c]; oid = ex.newobj(mem, n * (w // 8), 'out'); ex.objalign[oid] = w // 8; oobjs.append(oid); ptrs.append(Ptr(oid, 0))
    ex.cur_cond = z3.BoolVal(True)
    _, mem2 = ex.run('@w_' + fname, ptrs, mem)
    outs = []
    for (c, n), oid in zip(fn.outs, oobjs):
        k, w, _ = CT[c]; sz = w // 8
        ty = FloatTy(w) if k == 'f' else IntTy(w)
        vals = []
        for i in range(n):
            cells = mem2.read(oid, i * sz, sz)
            if any(x is None for x in cells):
                if ubsan and ex.obligations: vals.append(z3.BitVec('unwritten!%s!%d' % (oid, i), w) if k != 'f' else FV(w, bits=z3.BitVec('unwritten!%s!%d' % (oid, i), w))); continue     # trap-only paths: only the obligations matter
                raise Unsupported('output %s[%d] of %s not written' % (oid, i, fname))
            ex.cur_cond = z3.BoolVal(True)
            vals.append(ex.load(mem2, Ptr(oid, i * sz), ty))
        outs.append(vals)
    return SymResult(ins, outs, ex, fn, unit, mode)

# ----------------------------------------------------------------------------- concrete values <-> terms
def concretize(fn_io, vals, mode='fp'):
    """vals: list of lists of int bit patterns -> z3 values shaped like sym outputs (BitVecVal / FV / RV)"""
    out = []
    for (c, n), vs in zip(fn_io, vals):
        k, w, _ = CT[c]
        if k == 'f':
            if mode == 'real':
                out.append([RV(w, z3.RealVal(str(bits_to_fraction(v, w)))) for v in vs])
            else: out.append([FV(w, bits=bv(v, w)) for v in vs])
        else: out.append([bv(v, w) for v in vs])
    return out
def bits_to_float(v, w):
    return struct.unpack('<f' if w == 32 else '<d', int(v).to_bytes(w // 8, 'little'))[0]
def float_to_bits(d, w):
    return int.from_bytes(struct.pack('<f' if w == 32 else '<d', d), 'little')
def bits_to_fraction(v, w):
    d = bits_to_float(v, w)
    if d != d or d in (float('inf'), float('-inf')): return Fraction(0)
    return Fraction(d)
def z3val_to_fraction(v):
    v = z3.simplify(v)
    if z3.is_rational_value(v): return Fraction(v.numerator_as_long(), v.denominator_as_long())
    if z3.is_algebraic_value(v):
        a = v.approx(30); return Fraction(a.numerator_as_long(), a.denominator_as_long())
    if z3.is_int_value(v): return Fraction(v.as_long())
    raise ValueError('not a numeric value: %s' % v)

SPECIAL_F32 = [0x00000000, 0x80000000, 0x00000001, 0x80000001, 0x007fffff, 0x00800000, 0x80800000, 0x3f000000, 0xbf000000, 0x3effffff,
               0x3f800000, 0xbf800000, 0x3fc00000, 0x40200000, 0xc0200000, 0x40600000, 0x4b000000, 0xcb000000, 0x4b800000, 0x4b000001, 0x4f000000,
               0xcf000000, 0x4f800000, 0x5f000000, 0x7f7fffff, 0xff7fffff, 0x7f800000, 0xff800000, 0x7fc00000, 0xffc00001, 0x3f7fffff, 0x3f800001,
               0x40490fdb, 0x3dcccccd, 0x42f6e979, 0xc2f6e979, 0x38800000, 0x387fffff, 0x33000000, 0x477fe000, 0x477ff000]
def f32(x): return float_to_bits(x, 32)
def f64(x): return float_to_bits(x, 64)
def special_vals(c, rnd):
    k, w, _ = CT[c]
    if k == 'b': return [0, 1]
    if k == 'f':
        if w == 32: return SPECIAL_F32
        return [float_to_bits(bits_to_float(v, 32), 64) for v in SPECIAL_F32 if bits_to_float(v, 32) == bits_to_float(v, 32)] + [0x7ff8000000000000, 1, 0x000fffffffffffff, 0x4330000000000000, 0x4340000000000000, 0x3fdfffffffffffff]
    m = (1 << w) - 1
    return [0, 1, 2, 3, m, m - 1, 1 << (w - 1), (1 << (w - 1)) - 1, (1 << (w - 1)) + 1, 0x55555555 & m, 0xAAAAAAAAAAAAAAAA & m, 7, 8, 0x80 & m, 0x7f]
def boundary_vals(c):
    """integers: 2^k - 1, 2^k, 2^k + 1 for every k; floats: the special values"""
    k, w, _ = CT[c]
    if k in 'bf': return special_vals(c, None)
    m = (1 << w) - 1; out = []
    for e in range(w):
        out += [((1 << e) - 1) & m, (1 << e) & m, ((1 << e) + 1) & m, (-(1 << e)) & m]
    return sorted(set(out))
def sample_inputs(fn, rnd, k):
    """k input tuples mixing special and random values"""
    res = []
    for j in range(k):
        tup = []
        for (c, n) in fn.ins:
            sp = special_vals(c, rnd); w = ct_bits(c); vals = []
            for i in range(n):
                r = rnd.random()
                if r < 0.5: vals.append(rnd.choice(sp))
                elif r < 0.8 and ct_kind(c) == 'f':
                    vals.append(float_to_bits(rnd.uniform(-4, 4) * (10 ** rnd.randint(-3, 3)), w) if w == 64 else f32(rnd.uniform(-4, 4) * (10 ** rnd.randint(-3, 3))))
                else:
                    vals.append(rnd.getrandbits(w) if ct_kind(c) != 'b' else rnd.getrandbits(1))
            tup.append(vals)
        res.append(tup)
    return res

def eval_term(t, subst):
    r = z3.simplify(z3.substitute(t, *subst))
    return r

def validate_translation(res, rnd, k=6, pre=None):
    if _IN_CHILD[0]: return _validate_translation(res, rnd, k, pre)
    try: res.unit.native()
    except Exception: pass
    st = rnd.getstate()
    try: out, st2 = forked(lambda: (_validate_translation(res, rnd, k, pre), rnd.getstate()))
    except NativeCrash as e:
        rnd.setstate(st); rnd.random()
        return 0, [{'fn': res.fn.name, 'native_crash': str(e)}]
    rnd.setstate(st2); return out
def _validate_translation(res, rnd, k=6, pre=None):
    """Serval-style: push concrete inputs through the native function and through the symbolic term.
    Returns (n_compared, mismatches[list]).  Only bit/fp mode.  Outputs that do not reduce to a value (UF libm) are skipped."""
    fn = res.fn; unit = res.unit; n_cmp = 0; bad = []
    def quiet(v, c):       # SMT-LIB FP has a single NaN: signalling-NaN samples are quietened (libm's fmin/fmax treat sNaN differently from the compiler's inlined minnum)
        if ct_kind(c) != 'f': return v
        w = ct_bits(c); mb = 23 if w == 32 else 52; em = ((1 << (w - 1 - mb)) - 1) << mb
        return v | (1 << (mb - 1)) if (v & em) == em and (v & ((1 << mb) - 1)) != 0 else v
    for tup in sample_inputs(fn, rnd, k):
        tup = [[quiet(v, c) for v in vals] for (c, n), vals in zip(fn.ins, tup)]
        subst = []
        for terms, vals in zip(res.ins, tup):
            subst += [(t, bv(v, t.size())) for t, v in zip(terms, vals)]
        if pre is not None:
            try:
                if not z3.is_true(z3.simplify(z3.substitute(pre, *subst))): continue
            except Exception: continue
        # skip samples on which the code itself may trap / be UB (obligation conditions true)
        skip = False
        for kind, cond, d in res.ex.obligations:
            c = z3.simplify(z3.substitute(cond, *subst))
            if not z3.is_false(c): skip = True; break
        if skip: continue
        nat = unit.call_native(fn.name, tup)
        for oi, ((c, n), ovals) in enumerate(zip(fn.outs, res.outs)):
            for i, ov in enumerate(ovals):
                t = ov.bits if isinstance(ov, FV) else ov
                r = z3.simplify(z3.substitute(t, *subst))
                if not z3.is_bv_value(r): continue
                n_cmp += 1
                got = nat[oi][i]; exp = r.as_long()
                if ct_kind(c) == 'b': got &= 1; exp &= 1
                if got != exp:
                    if ct_kind(c) == 'f':
                        a = bits_to_float(got, ct_bits(c)); b = bits_to_float(exp, ct_bits(c))
                        if a != a and b != b: continue     # NaN payloads not compared
                    bad.append({'fn': fn.name, 'inputs': [[hex(v) for v in vs] for vs in tup], 'out': [oi, i], 'native': hex(got), 'symbolic': hex(exp)})
    return n_cmp, bad

# ----------------------------------------------------------------------------- solver front ends
_WD = {'pid': None, 'deadline': None, 'solver': None, 'keep': []}
def _wd_loop():
    while True:
        time.sleep(0.5)
        d = _WD['deadline']
        if d is not None and time.time() > d:
            _WD['deadline'] = None
            try:
                if _WD['solver'] is not None: _WD['solver'].interrupt()      # Z3_solver_interrupt: a no-op unless a check() of that solver is running
            except Exception: pass
def guarded_check(solver, timeout_s):
    """solver.check() with a watchdog: some z3 tactics (nlsat, parts of the fp/bv preprocessing) do not poll their 'timeout' parameter.  One daemon thread per
    process calls Z3_solver_interrupt a few seconds after the deadline (ctypes releases the GIL during check), which makes check() return unknown.  The main
    thread keeps the last solvers alive in _WD['keep'] so that the watchdog thread never drops the last reference to a z3 object (z3 is not thread-safe)."""
    if os.environ.get('VERIF_NO_WATCHDOG'): return solver.check()
    import threading
    if _WD['pid'] != os.getpid():
        _WD['pid'] = os.getpid(); _WD['deadline'] = None; _WD['solver'] = None; _WD['keep'] = []
        th = threading.Thread(target=_wd_loop, daemon=True); th.start()
    _WD['keep'].append(solver)
    if len(_WD['keep']) > 3: _WD['keep'].pop(0)
    _WD['solver'] = solver
    _WD['deadline'] = time.time() + timeout_s + 3.0
    try: return solver.check()
    except z3.Z3Exception as e:
        if 'cancel' in str(e) or 'interrupt' in str(e): return z3.unknown
        raise
    finally: _WD['deadline'] = None

def _z3_check(asserts, timeout_s, tactic=None):
    s = z3.Solver() if tactic is None else z3.Tactic(tactic).solver()
    s.set('timeout', int(timeout_s * 1000))
    s.add(*asserts)
    t = time.time(); r = guarded_check(s, timeout_s); dt = time.time() - t
    m = s.model() if r == z3.sat else None
    return str(r), m, dt, s

def _cvc5_check(asserts, timeout_s, vars_, opts=('--solve-bv-as-int=sum',), logic=None):
    s = z3.Solver(); s.add(*asserts)
    txt = s.to_smt2()
    txt = txt.replace('(check-sat)', '')
    txt = re.sub(r'\b(bvurem|bvudiv|bvsdiv|bvsrem|bvsmod)_i\b', r'\1', txt)    # z3-internal names of the SMT-LIB (total) operators
    head = '(set-option :produce-models true)\n' + ('(set-logic %s)\n' % logic if logic else '(set-logic ALL)\n')
    names = [v.sexpr() for v in vars_]
    names = [n for n in names if ('(declare-fun %s ' % n) in txt or ('(declare-const %s ' % n) in txt]   # inputs the formula does not mention are not declared (cvc5: parse error, model lost); they default to 0
    tail = '(check-sat)\n' + ('(get-value (%s))\n' % ' '.join(names) if names else '')
    path = os.path.join(scratch(), 'q%d_%d.smt2' % (os.getpid(), random.getrandbits(32)))
    with open(path, 'w') as f: f.write(head + txt + tail)
    t = time.time()
    try:
        p = subprocess.run(['cvc5', '--tlimit=%d' % int(timeout_s * 1000)] + list(opts) + [path], capture_output=True, text=True, timeout=timeout_s + 10)
        out = p.stdout; err = p.stderr
    except subprocess.TimeoutExpired:
        out = 'unknown'; err = 'timeout'
    dt = time.time() - t
    try: os.unlink(path)
    except OSError: pass
    first = out.strip().split('\n')[0].strip() if out.strip() else 'unknown'
    if '(error' in out or 'error' in err.lower():
        if first not in ('sat', 'unsat'): first = 'unknown'
        if '(error' in out.split('\n')[0]: first = 'unknown'
    if first not in ('sat', 'unsat'): first = 'unknown'
    model = None
    if first == 'sat':
        model = {}
        for m in re.finditer(r'\(\s*(\|[^|]*\||[^\s()]+)\s+(#b[01]+|#x[0-9a-fA-F]+)\s*\)', out):
            v = m.group(2); model[m.group(1)] = int(v[2:], 2 if v[1] == 'b' else 16)
    return first, model, dt

def _mentions_fp(t):
    """hypothesis over the IEEE view of the inputs (meaningless once rounding is erased: reals are finite and not NaN)"""
    seen = set(); st = [t]
    while st:
        x = st.pop()
        if x.get_id() in seen: continue
        seen.add(x.get_id())
        if z3.is_fp(x) or z3.is_bv(x): return True
        st.extend(x.children())
    return False
def _term_vars(t, memo):
    k = t.get_id()
    if k in memo: return memo[k]
    if z3.is_const(t) and t.decl().kind() == z3.Z3_OP_UNINTERPRETED: r = frozenset([k])
    else:
        r = frozenset()
        for c in t.children(): r = r | _term_vars(c, memo)
    memo[k] = r; return r
def _cone_of_influence(asserts):
    """assertions connected (through shared uninterpreted constants) to the last assertion; order preserved"""
    if len(asserts) < 2: return asserts
    memo = {}; vs = [_term_vars(a, memo) for a in asserts]
    keep = {len(asserts) - 1}; cur = set(vs[-1]); changed = True
    while changed:
        changed = False
        for i, v in enumerate(vs):
            if i not in keep and (v & cur): keep.add(i); cur |= v; changed = True
    return [a for i, a in enumerate(asserts) if i in keep]

def abstract_fp(terms):
    """Replace every maximal non-FP sub-term that has a floating-point argument (fp.lt, fp.isNaN, fp.to_sbv, to_ieee_bv ...) by a fresh constant of
    its sort, consistently over all the given terms.  The result over-approximates the original (every model of the original induces a model of the
    abstraction), so `unsat` of the abstraction implies `unsat` of the original; used for index / offset obligations whose truth does not depend on
    the floating-point values."""
    def isfp(srt): return srt.kind() in (z3.Z3_FLOATING_POINT_SORT, z3.Z3_ROUNDING_MODE_SORT)
    seen = set(); subs = []; stack = list(terms)
    while stack:
        t = stack.pop(); k = t.get_id()
        if k in seen: continue
        seen.add(k)
        if not z3.is_app(t) or t.num_args() == 0: continue
        ch = t.children()
        if not isfp(t.sort()) and any(isfp(c.sort()) for c in ch): subs.append((t, z3.FreshConst(t.sort(), 'absfp'))); continue
        stack.extend(ch)
    return [z3.substitute(t, *subs) if subs else t for t in terms], len(subs)

class Rec(dict): pass

class Session:
    """collects obligations and their verdicts for one job"""
    def __init__(s, pid, tier, seed, pins=None):
        s.pid = pid; s.tier = tier; s.seed = seed; s.rnd = random.Random(seed)
        s.records = []; s.violations = []; s.known_hits = []; s.inconclusive = []; s.engine_errors = []
        s.validated = 0; s.pins = pins or {}
        s.quick = tier == 'quick'
        s.known = load_known(pid)
    def cap(s, quick, thorough=None):
        return quick if s.quick else (thorough if thorough is not None else quick * 4)

    def rec(s, **kw):
        r = dict(kw); s.records.append(r); return r

    # -- raw query: returns ('unsat'|'sat'|'unknown', model)
    def query(s, asserts, timeout, solver='z3', vars_=()):
        if solver == 'z3':
            r, m, dt, _ = _z3_check(asserts, timeout); return r, m, dt, 'z3'
        if solver == 'cvc5int':
            r, m, dt = _cvc5_check(asserts, timeout, vars_); return r, m, dt, 'cvc5 --solve-bv-as-int=sum'
        if solver == 'cvc5':
            r, m, dt = _cvc5_check(asserts, timeout, vars_, opts=()); return r, m, dt, 'cvc5'
        if solver == 'portfolio':        # z3 briefly, then cvc5 int-blasting, then z3 for the rest
            r, m, dt, _ = _z3_check(asserts, 3)
            if r != 'unknown': return r, m, dt, 'z3'
            r, m, dt2 = _cvc5_check(asserts, timeout / 2, vars_)
            if r != 'unknown': return r, m, dt + dt2, 'z3+cvc5 --solve-bv-as-int=sum'
            r, m, dt3, _ = _z3_check(asserts, timeout / 2)
            return r, m, dt + dt2 + dt3, 'z3+cvc5 --solve-bv-as-int=sum+z3'
        if solver == 'nra':          # real polynomial identities under equality hypotheses: nlsat with its variable reordering switched off decides in
            # milliseconds what the default strategy needs 14 s (or forever) for, but is sensitive to the order in which variables first occur:
            # short slices over (A) assertions that define engine-fresh variables (sqrt!k, sin!k ..) first, (B) the given order; then the default strategy.
            # Assertions sharing no variable (transitively) with the last one (the negated goal) are dropped first - sound for 'unsat'.
            core = _cone_of_influence(list(asserts))
            tot = 0.0; used = []
            fresh_first = sorted(core, key=lambda a_: 0 if '!' in a_.sexpr() else 1)
            for sl in (2.0, min(10.0, timeout / 5.0)):
                for tag, lst in (('A', fresh_first), ('B', core)):
                    sv = z3.With('qfnra-nlsat', **{'nlsat.reorder': False}).solver(); sv.set('timeout', int(sl * 1000)); sv.add(*lst)
                    t = time.time(); r = str(guarded_check(sv, sl)); tot += time.time() - t; used.append(tag)
                    if r == 'sat' and len(core) < len(asserts):
                        # the model only covers the cone of influence of the goal: extend it to a model of ALL assertions (the dropped ones share no variable with it),
                        # otherwise a replay would run on inputs that violate the precondition
                        mc = sv.model(); fix = []
                        for d_ in mc.decls():
                            if d_.arity() == 0:
                                try: fix.append(d_() == mc[d_])
                                except Exception: pass
                        r2, m2, dt2, _ = _z3_check(list(asserts) + fix, max(5.0, min(20.0, timeout / 4.0))); tot += dt2
                        if r2 == 'sat': return 'sat', m2, tot, 'z3 qfnra-nlsat(reorder=false;%s)+model completion' % ''.join(used)
                        return 'unknown', None, tot, 'z3 qfnra-nlsat(reorder=false;%s): model of the goal cone could not be extended to the dropped hypotheses' % ''.join(used)
                    if r != 'unknown': return r, (sv.model() if r == 'sat' else None), tot, 'z3 qfnra-nlsat(reorder=false;%s)' % ''.join(used)
            r, m, dt2, _ = _z3_check(core, max(1.0, timeout - tot)); return r, m, tot + dt2, 'z3 qfnra-nlsat(reorder=false;ABAB)+z3'
        if solver == 'qfnra':
            r, m, dt, _ = _z3_check(asserts, timeout, tactic='qfnra-nlsat'); return r, m, dt, 'z3 qfnra-nlsat'
        raise ValueError(solver)

    def prove(s, name, goal, hyps=(), *, timeout=None, solver='z3', kind='spec', functions=(), bounds='', mandatory=True,
              replay=None, vars_=(), expect='unsat', note='', rgoal=None):
        """check hyps /\\ not goal.  replay(model)-> ('reproduced'|'not-reproduced'|'no-replay', info)"""
        timeout = timeout or s.cap(150, 300)
        if mandatory and expect == 'unsat': timeout = max(timeout, 90)       # mandatory obligations must be decided: a short cap only risks a spurious INCONCLUSIVE on a slower or loaded machine
        asserts = list(hyps) + [z3.Not(goal)]
        try:
            r, m, dt, used = s.query(asserts, timeout, solver, vars_)
        except z3.Z3Exception as e:
            r, m, dt, used = 'unknown', None, 0.0, solver + ' error: %s' % e
        rec = s.rec(name=name, kind=kind, functions=list(functions), bounds=bounds, solver=used, result=r, time_s=round(dt, 3), mandatory=mandatory, note=note)
        if expect == 'sat':      # vacuity witness or mutant twin: must be satisfiable
            rec['expect'] = 'sat'
            if r == 'sat': rec['status'] = 'ok'
            elif r == 'unsat':
                rec['status'] = 'vacuous'; s.engine_errors.append('%s: expected sat (witness/mutant twin) but got unsat' % name)
            else:
                rec['status'] = 'inconclusive'
                if mandatory: s.inconclusive.append(name)
            return r, m
        if r == 'unsat': rec['status'] = 'discharged'
        elif r == 'unknown':
            rec['status'] = 'inconclusive'
            if mandatory: s.inconclusive.append(name)
        else:
            rec['status'] = 'counterexample'
            if replay is not None:
                try: verdict, info = replay(m)
                except NativeCrash as e:       # the real code crashed (SIGSEGV / SIGBUS / SIGILL ...) on the solver's counterexample inputs: the defect is observable natively.
                    # SIGABRT is glm's own assert(): the inputs violate a documented precondition, which is not a reproduction of anything
                    if getattr(e, 'sig', None) == 6 and kind != 'trap': verdict, info = 'not-reproduced', {'note': 'the native run stopped in an assert() of glm (precondition violated by the model inputs): ' + str(e)}
                    else: verdict, info = 'reproduced', {'native_crash': str(e), 'obligation': name, 'property': s.pid, 'pin_name': name}
                except Exception as e:
                    verdict, info = ('reproduced', {'native_crash': str(e), 'obligation': name, 'property': s.pid, 'pin_name': name}) if ('killed by signal' in str(e) and 'signal 6' not in str(e)) else ('replay-error', {'error': traceback.format_exc()[-1500:]})
                rec['replay'] = verdict; rec['replay_info'] = info
                if verdict != 'reproduced' and rgoal is not None:
                    # rounding-erased counterexamples found by nlsat often violate the atom by 1e-9 at huge / tiny inputs and drown in the float replay:
                    # ask again for a robust one (inputs in [-8, 8], atom violated by at least 1/2) and replay that
                    try:
                        l_, r_ = rgoal.l, rgoal.r
                        l_ = z3.RealVal(l_) if isinstance(l_, (int, float)) else l_; r_ = z3.RealVal(r_) if isinstance(r_, (int, float)) else r_
                        gap = {'eq': z3.Or(l_ - r_ >= 0.5, r_ - l_ >= 0.5), 'le': l_ - r_ >= 0.5, 'lt': l_ - r_ >= 0.5, 'ge': r_ - l_ >= 0.5, 'gt': r_ - l_ >= 0.5}[rgoal.kind]
                        box = [z3.And(v >= -8, v <= 8) for v in vars_ if z3.is_real(v)]
                        extra = box + ([rgoal.guard] if getattr(rgoal, 'guard', None) is not None else []) + [gap]        # the goal atom stays the LAST assertion (the 'nra' front end keeps its cone of influence)
                        r2, m2, dt2, used2 = s.query(list(hyps) + extra, min(timeout, 30), solver, vars_)
                        rec['robust_cex'] = r2
                        if r2 == 'sat':
                            verdict, info = replay(m2); rec['replay'] = verdict; rec['replay_info'] = info
                    except Exception as e:
                        rec['robust_cex'] = 'error: %s' % str(e)[:200]
                if verdict == 'reproduced':
                    s.violations.append((name, info))
                else:
                    rec['status'] = 'inconclusive(cex not reproduced)'
                    if mandatory: s.inconclusive.append(name + ' [counterexample not reproduced natively: ' + verdict + ']')
            else:
                rec['replay'] = 'none'
                s.violations.append((name, {'model': str(m)[:2000]}))
        return r, m

    # -- the main entry: check a function of the real code against a spec, with replay and known-findings handling
    def check_fn(s, unit, fname, spec, pre=None, *, mode='fp', unwind=16, timeout=None, solver='z3', name=None, bounds='',
                 validate=None, side=True, known=(), witness=True, mutant=None, ins=None, ubsan=False, opt='-O1', extra_hyps=None, mandatory=True, ex=None, assume_asserts=False, split_side=False):
        """spec(ins, outs) -> Bool | [(label, Bool)] ; pre(ins) -> Bool | [Bool]
        side=True: also discharge the executor's own obligations (unwinding, traps, UB, domain) under pre.
        """
        name = name or '%s.%s' % (unit.name, fname)
        fn = unit.fns[fname]
        t0 = time.time()
        try:
            res = sym_call(unit, fname, ins=ins, mode=mode, unwind=unwind, ubsan=ubsan, opt=opt, ex=ex(unit, mode, unwind) if callable(ex) else ex)
        except Unsupported as e:
            s.rec(name=name, kind='encode', result='unsupported', status='not-encoded', note=str(e), mandatory=mandatory, functions=[fname])
            if mandatory: s.inconclusive.append('%s [not encoded: %s]' % (name, e))
            return None
        tb = time.time() - t0
        hyps = input_wellformed(fn, res.ins)
        p = pre(res.ins) if pre else []
        if not isinstance(p, (list, tuple)): p = [p]
        hyps += list(p)
        if extra_hyps: hyps += list(extra_hyps(res))
        hyps += res.axioms
        n_asserted = 0
        if assume_asserts:      # glm's own assert()s are documented preconditions: a failing assert aborts with a diagnostic (not UB); assume every one holds
            for kind, cond, d in res.obligations:
                if kind == 'trap' and '__assert_fail' in d: hyps.append(z3.Not(cond)); n_asserted += 1
        # pins (replay mode): fix inputs to recorded values
        pin = s.pins.get(name)
        if pin:
            for terms, vals in zip(res.ins, pin):
                for t, v in zip(terms, vals):
                    if z3.is_bv(t): hyps.append(t == bv(int(v, 16), t.size()))
                    else: hyps.append(t == z3.RealVal(v))
        allvars = [t for terms in res.ins for t in terms]
        fnlist = ['w_%s -> %s' % (fname, fn.body.strip().replace('\n', ' ')[:160])]
        binfo = ('unwind=%d; ' % unwind) + bounds + '; ll=' + unit.ll_sha(opt, ubsan)
        # translator validation
        nval = validate if validate is not None else (4 if s.quick else 12)
        if mode != 'real' and nval:
            try:
                pr = z3.And(*hyps) if hyps else None
                ncmp, bad = validate_translation(res, s.rnd, nval, pre=pr)
                s.validated += ncmp
                if bad:
                    s.engine_errors.append('%s: symbolic term disagrees with native execution: %s' % (name, json.dumps(bad[0])))
            except Exception as e:
                s.rec(name=name + '.validate', kind='validate', result='error', status='skipped', note=str(e)[:300], mandatory=False)
        # vacuity witness
        if witness:
            s.prove(name + '.witness', z3.BoolVal(False), hyps, timeout=s.cap(20, 60), solver='z3', kind='witness', functions=fnlist, bounds=binfo, expect='sat', mandatory=False)
        # side obligations
        if side:
            groups = {}
            for kind, cond, d in res.obligations:
                if assume_asserts and kind == 'trap' and '__assert_fail' in d: continue
                if ubsan and kind == 'unreachable': continue      # clang emits 'unreachable' after every llvm.ubsantrap (already an obligation); genuine unreachables are instrumented as traps
                groups.setdefault((kind, d) if not split_side else (kind, d + '#%d' % len(groups)), []).append(cond)      # split_side: one obligation per site (a disjunction of many remainder-heavy sites is fragile)
            for (kind, d), conds in groups.items():
                if kind == 'oob' and not known and mode != 'real':      # index / offset obligations: first with every floating-point atom abstracted to a fresh constant (sound over-approximation)
                    at, nsub = abstract_fp(list(hyps) + [z3.Or(*conds)])
                    if nsub:
                        r, m, dt, used = s.query(at, min(timeout or 30, 30), 'z3', allvars)
                        if r == 'unsat':
                            s.rec(name=name + '.%s[%s]' % (kind, d[:60]), kind=kind, functions=fnlist, bounds=binfo + '; floating-point atoms abstracted to fresh constants', solver=used, result=r, time_s=round(dt, 3), status='discharged', mandatory=mandatory)
                            continue
                s._prove_known(name + '.%s[%s]' % (kind, d[:60]), z3.Not(z3.Or(*conds)) if len(conds) > 1 else z3.Not(conds[0]), hyps, res, known, timeout=timeout, solver=solver, kind=kind, functions=fnlist, bounds=binfo, spec_fn=None, pre_fn=pre, unit=unit, fname=fname, mode=mode, vars_=allvars, mandatory=mandatory)
        goals = spec(res.ins, res.outs) if spec else []
        if not isinstance(goals, (list, tuple)): goals = [('spec', goals)]
        for label, g in goals:
            s._prove_known('%s.%s' % (name, label), goal_term(g), hyps, res, known, timeout=timeout, solver=solver, kind='spec', functions=fnlist, bounds=binfo,
                           spec_fn=(spec, label), pre_fn=pre, unit=unit, fname=fname, mode=mode, vars_=allvars, mandatory=mandatory, rgoal=g if (mode == 'real' and isinstance(g, RGoal)) else None)
        if mutant is not None and not s.quick:
            mg = mutant(res.ins, res.outs)
            if not isinstance(mg, (list, tuple)): mg = [('mutant', mg)]
            for label, g in mg:
                s.prove('%s.twin.%s' % (name, label), goal_term(g), hyps, timeout=timeout, solver=solver, kind='mutant-twin', functions=fnlist, bounds=binfo, expect='sat', mandatory=False, vars_=allvars)
        return res

    # -- differential check: the same wrapper in two builds (units / optimisation levels) on shared symbolic inputs
    def diff_fn(s, ua, ub, fname, pre=None, *, mode='fp', name=None, opt_a='-O1', opt_b='-O1', unwind=16, known=(), timeout=None, solver='z3',
                bounds='', mandatory=True, eq=None, fname_b=None, label_a='A', label_b='B', outs_sel=None, native_b=None, syntactic_only=False):
        """outputs of ua.fname and ub.fname(_b) must agree on every input satisfying pre.  eq(a, b, ctype) -> Bool overrides the default
        (integers: equal; floats: bit-identical or both NaN; real mode: equal)."""
        fname_b = fname_b or fname
        name = name or '%s~%s.%s' % (ua.name, ub.name, fname)
        fa = ua.fns[fname]; fb = ub.fns[fname_b]
        erase = mode == 'erase'           # execute bit-exactly, then erase rounding at the term level (engine/erase.py)
        if erase: mode = 'fp'
        ins = mkvars(fa, mode)
        try:
            ex = Exec(ua.module(opt_a), fmode='real' if mode == 'real' else 'fp', unwind=unwind)
            ra = sym_call(ua, fname, ins=ins, mode=mode, unwind=unwind, opt=opt_a, ex=ex)
            n_ob_a = len(ex.obligations)
            rb = sym_call(ub, fname_b, ins=ins, mode=mode, unwind=unwind, opt=opt_b, ex=ex)
        except (Unsupported, z3.Z3Exception, AttributeError, TypeError, KeyError, AssertionError, IndexError) as e:
            s.rec(name=name, kind='encode', result='unsupported', status='not-encoded', note=str(e), mandatory=mandatory, functions=[fname])
            if mandatory: s.inconclusive.append('%s [not encoded: %s]' % (name, e))
            return None
        hyps = input_wellformed(fa, ins)
        p = pre(ins) if pre else []
        if not isinstance(p, (list, tuple)): p = [p]
        hyps += list(p) + list(ex.axioms)
        # equality is only demanded where the reference build (A) itself executes no UB / failed assertion (those inputs are outside every documented domain; C20 decides them)
        ubA = [c for k, c, d in ex.obligations[:n_ob_a] if k in ('ub', 'trap', 'unreachable', 'domain')]
        if ubA: hyps.append(z3.Not(z3.Or(*ubA)) if len(ubA) > 1 else z3.Not(ubA[0]))
        pin = s.pins.get(name)
        if pin:
            for terms, vals in zip(ins, pin):
                for t, v in zip(terms, vals):
                    if z3.is_bv(t): hyps.append(t == bv(int(v, 16), t.size()))
        # instance-level known findings (region '@instance'): the two builds route to different library functions, which uninterpreted functions cannot
        # compare; the recorded witness input is replayed natively; while it still differs the instance is reported and excluded from the equality claim
        for kid in known:
            kf = s.known.get(kid)
            if kf is None or kf.get('status', 'open') != 'open' or kf.get('region') != '@instance': continue
            if not fnmatch.fnmatch(name, kf['obligation']): continue
            wit = (kf.get('witness') or {}).get(fname)
            if not wit: continue
            vals = [[int(v, 16) for v in row] for row in wit]
            na = ua.call_native(fname, vals); nb = (native_b or ub).call_native(fname_b, vals)
            differs = False
            for (c, n_), xa, xb in zip(fa.outs, na, nb):
                for x, y in zip(xa, xb):
                    if ct_kind(c) == 'f':
                        fx, fy = bits_to_float(x, ct_bits(c)), bits_to_float(y, ct_bits(c))
                        if x != y and not (fx != fx and fy != fy): differs = True
                    elif (x & 1 if ct_kind(c) == 'b' else x) != (y & 1 if ct_kind(c) == 'b' else y): differs = True
            s.rec(name=name + '.known[%s]' % kid, kind='known-finding-probe', functions=[fname], bounds=bounds, solver='native replay of recorded witness', result='differs' if differs else 'agrees',
                  time_s=0.0, mandatory=False, status='known-finding' if differs else 'known-finding-absent', replay_info={'inputs': wit, 'native_' + label_a: [[hex(v) for v in r] for r in na], 'native_' + label_b: [[hex(v) for v in r] for r in nb]})
            if differs:
                s.known_hits.append((kid, kf['what'])); return ra, rb
        known = [k for k in known if (s.known.get(k) or {}).get('region') != '@instance']
        allvars = [t for terms in ins for t in terms]
        fnlist = ['%s: w_%s -> %s' % (label_a + '|' + label_b, fname, fa.body.strip().replace('\n', ' ')[:140])]
        binfo = ('unwind=%d; ' % unwind) + bounds + '; ll=%s vs %s' % (ua.ll_sha(opt_a), ub.ll_sha(opt_b))
        def default_eq(a, b, c):
            if isinstance(a, RV): return a.r == b.r
            if isinstance(a, FV):
                if a._bits is not None and b._bits is not None and a._bits.eq(b._bits): return z3.BoolVal(True)
                if a.fp.eq(b.fp): return z3.BoolVal(True)
                return z3.Or(a.bits == b.bits, z3.And(z3.fpIsNaN(a.fp), z3.fpIsNaN(b.fp)))
            if ct_kind(c) == 'b': return (a & 1) == (b & 1)
            return a == b
        eqf = eq or default_eq
        E = None
        if erase:
            import erase as _er
            E = _er.Eraser()
        def erased_inputs(m):
            vals = []
            for (c, n), terms in zip(fa.ins, ins):
                row = []
                for t in terms:
                    rv = E.vars.get(t.decl().name()) if ct_kind(c) == 'f' else None
                    if rv is not None: row.append(float_to_bits(float(z3val_to_fraction(m.eval(rv, model_completion=True))), ct_bits(c)))
                    else:
                        v = m.eval(t, model_completion=True); row.append(v.as_long() if z3.is_bv_value(v) else 0)
                vals.append(row)
            return vals
        def mk_replay(oi, i):
            def replay(m):
                vals = erased_inputs(m) if erase else s._model_inputs(m, ra)
                info = {'unit': ua.name, 'unit_b': ub.name, 'fn': fname, 'inputs': [[hex(v) if isinstance(v, int) else str(v) for v in r] for r in vals], 'obligation': name, 'property': s.pid, 'pin_name': name}
                if mode == 'real':
                    vals = [[float_to_bits(float(v), ct_bits(c)) if ct_kind(c) == 'f' else int(v) for v in row] for (c, n), row in zip(fa.ins, vals)]
                cxa, oa = ('clang++-14', opt_a) if opt_a != opt_b else ('g++', '-O2')
                cxb, ob = ('clang++-14', opt_b) if opt_a != opt_b else ('g++', '-O2')
                na = ua.call_native(fname, vals, cxx=cxa, opt=oa); nb = (native_b or ub).call_native(fname_b, vals, cxx=cxb, opt=ob)
                info['native_' + label_a] = [[hex(v) for v in r] for r in na]; info['native_' + label_b] = [[hex(v) for v in r] for r in nb]
                c = fa.outs[oi][0]; x, y = na[oi][i], nb[oi][i]
                if ct_kind(c) == 'b': x &= 1; y &= 1
                if x == y: return 'not-reproduced', info
                if ct_kind(c) == 'f':
                    fx, fy = bits_to_float(x, ct_bits(c)), bits_to_float(y, ct_bits(c))
                    if fx != fx and fy != fy: return 'not-reproduced', info
                    if mode == 'real' or erase:
                        tol = 2e-3 if ct_bits(c) == 32 else 1e-6
                        if fx == fx and fy == fy and abs(fx - fy) <= tol * max(1.0, abs(fx), abs(fy)): return 'not-reproduced', info
                return 'reproduced', info
            return replay
        n_skipped = 0
        todo = []
        for oi, ((c, n), va, vb) in enumerate(zip(fa.outs, ra.outs, rb.outs)):
            if outs_sel is not None and oi not in outs_sel: continue
            for i, (a, b) in enumerate(zip(va, vb)):
                oname = '%s.o%d_%d' % (name, oi, i) if len(fa.outs) > 1 else '%s.%d' % (name, i)
                g = eqf(a, b, c)
                if erase and isinstance(a, FV) and not z3.is_true(z3.simplify(g)):
                    try: g = E.fp(a.fp) == E.fp(b.fp)
                    except (Unsupported, z3.Z3Exception, AttributeError) as e:
                        s.rec(name=oname, kind='encode', result='unsupported', status='not-encoded', note=str(e)[:200], mandatory=mandatory, functions=fnlist)
                        if mandatory: s.inconclusive.append('%s [not encoded: %s]' % (oname, str(e)[:120]))
                        continue
                todo.append((oi, i, c, oname, g))
        if erase:
            hyps = [h for h in hyps if not _mentions_fp(h)] + list(E.axioms) + ([z3.Not(z3.Or(*E.domain))] if E.domain else [])
            s.last_approx_ufs = set(E.approx_ufs)
        for oi, i, c, oname, g in todo:
            if True:
                gs = z3.simplify(g)
                if z3.is_true(gs):
                    s.rec(name=oname, kind='diff', functions=fnlist, bounds=binfo, solver='identical terms (z3 simplifier)', result='unsat', time_s=0.0, status='discharged', mandatory=mandatory)
                    continue
                if syntactic_only: n_skipped += 1; continue
                s._prove_known(oname, g, hyps, ra, known, timeout=timeout, solver=solver, kind='diff', functions=fnlist, bounds=binfo, spec_fn=None, pre_fn=pre,
                               unit=ua, fname=fname, mode=mode, vars_=allvars, mandatory=mandatory, replayer=mk_replay(oi, i))
        if syntactic_only: return n_skipped
        return ra, rb

    def _model_inputs(s, m, res):
        vals = []
        for (c, n), terms in zip(res.fn.ins, res.ins):
            row = []
            for t in terms:
                if isinstance(m, dict):
                    row.append(m.get(t.sexpr(), 0))
                elif z3.is_bv(t):
                    v = m.eval(t, model_completion=True); row.append(v.as_long())
                else:
                    v = m.eval(t, model_completion=True); row.append(z3val_to_fraction(v))
            vals.append(row)
        hook = getattr(res.ex, 'model_inputs_hook', None)     # e.g. realtrig: choose angle inputs that realise the model's sin/cos values
        if hook is not None and not isinstance(m, dict):
            try: vals = hook(m, res, vals)
            except Exception: pass
        return vals

    def _replayer(s, res, spec_fn, pre_fn, unit, fname, mode, oname, side_kind=None):
        fn = unit.fns[fname]
        def replay(m):
            vals = s._model_inputs(m, res)
            if mode == 'real':
                return real_replay(unit, fname, vals, spec_fn, pre_fn, oname, s.pid)
            # bit patterns
            info = {'unit': unit.name, 'fn': fname, 'inputs': [[hex(v) for v in r] for r in vals], 'obligation': oname, 'property': s.pid}
            if side_kind is not None:
                return ub_replay(unit, fname, vals, info, side_kind)
            verdicts = {}
            for cxx in ('g++', 'clang++-14'):
                nat = unit.call_native(fname, vals, cxx=cxx)
                cin = concretize(fn.ins, vals); cout = concretize(fn.outs, nat)
                cin_t = [[x.bits if isinstance(x, FV) else x for x in r] for r in cin]
                goals = spec_fn[0](cin_t, cout)
                if not isinstance(goals, (list, tuple)): goals = [('spec', goals)]
                g = dict(goals)[spec_fn[1]]
                ok = z3.simplify(g)
                info['native_out_' + cxx] = [[hex(v) for v in r] for r in nat]
                verdicts[cxx] = 'holds' if z3.is_true(ok) else ('violated' if z3.is_false(ok) else 'undetermined')
            info['native_verdicts'] = verdicts
            if all(v == 'violated' for v in verdicts.values()): return 'reproduced', info
            if any(v == 'violated' for v in verdicts.values()): return 'reproduced', info
            # the solver's model did not reproduce (typically: it interprets an uninterpreted libm function freely).  The obligation is NOT proved; look for a native
            # witness among boundary inputs (2^k-1, 2^k, 2^k+1, special floats) that satisfy the precondition - only a natively violated atom is reported
            try:
                rnd = random.Random(12345); tried = 0
                pools = [boundary_vals(c) for (c, n) in fn.ins]
                while tried < 400:
                    tried += 1
                    cand = [[rnd.choice(pool) for _ in range(n)] for (c, n), pool in zip(fn.ins, pools)]
                    cin = concretize(fn.ins, cand); cin_t = [[x.bits if isinstance(x, FV) else x for x in r] for r in cin]
                    if pre_fn is not None:
                        p_ = pre_fn(cin_t); p_ = p_ if isinstance(p_, (list, tuple)) else [p_]
                        if not all(z3.is_true(z3.simplify(h)) for h in p_): continue
                    nat = unit.call_native(fname, cand)
                    goals = spec_fn[0](cin_t, concretize(fn.outs, nat))
                    if not isinstance(goals, (list, tuple)): goals = [('spec', goals)]
                    g = dict(goals).get(spec_fn[1])
                    if g is not None and z3.is_false(z3.simplify(g)):
                        info['inputs'] = [[hex(v) for v in r] for r in cand]; info['native_out_g++'] = [[hex(v) for v in r] for r in nat]
                        info['witness'] = 'found among boundary inputs after the solver model did not reproduce'
                        return 'reproduced', info
            except Exception as e:
                info['boundary_search_error'] = str(e)[:200]
            return 'not-reproduced', info
        return replay

    def _prove_known(s, oname, goal, hyps, res, known, *, timeout, solver, kind, functions, bounds, spec_fn, pre_fn, unit, fname, mode, vars_, mandatory=True, replayer=None, rgoal=None):
        """prove goal; if a reproduced counterexample falls into a listed known finding's region, report KNOWN-FINDING and re-prove outside it."""
        regions = []
        for kid in known:
            kf = s.known.get(kid)
            if kf is None: continue
            if kf.get('status', 'open') != 'open': continue
            if not fnmatch.fnmatch(oname, kf['obligation']): continue
            regions.append((kid, kf, eval_region(kf['region'], res, oname, s.pid)))
        rp = replayer or s._replayer(res, spec_fn, pre_fn, unit, fname, mode, oname, side_kind=None if spec_fn else kind)
        if not regions:
            s.prove(oname, goal, hyps, timeout=timeout, solver=solver, kind=kind, functions=functions, bounds=bounds, replay=rp, vars_=vars_, mandatory=mandatory, rgoal=rgoal)
            return
        # first: is there a violation inside a known region?  (so we print KNOWN-FINDING only while the defect is still there)
        for kid, kf, reg in regions:
            r, m, dt, used = s.query(list(hyps) + [reg, z3.Not(goal)], min(timeout or 60, 60), solver, vars_)
            rec = s.rec(name=oname + '.known[%s]' % kid, kind='known-finding-probe', functions=list(functions), bounds=bounds, solver=used, result=r, time_s=round(dt, 3), mandatory=False)
            if r == 'sat':
                verdict, info = rp(m)
                rec['replay'] = verdict; rec['replay_info'] = info
                if verdict == 'reproduced':
                    rec['status'] = 'known-finding'
                    s.known_hits.append((kid, kf['what']))
                else:
                    rec['status'] = 'known-finding-not-reproduced'
            else:
                rec['status'] = 'known-finding-absent' if r == 'unsat' else 'inconclusive'
        # then: the obligation outside all known regions must hold
        excl = [z3.Not(reg) for _, _, reg in regions]
        s.prove(oname + '.outside-known', goal, list(hyps) + excl, timeout=timeout, solver=solver, kind=kind, functions=functions,
                bounds=bounds + '; excluding known-finding regions ' + ','.join(k for k, _, _ in regions), replay=rp, vars_=vars_, mandatory=mandatory, rgoal=rgoal)

# ----------------------------------------------------------------------------- known findings
_KF = None
def load_known(pid=None):
    global _KF
    if _KF is None:
        p = os.path.join(VERIF, 'known_findings.json')
        _KF = {}
        if os.path.exists(p):
            for e in json.load(open(p))['findings']: _KF[e['id']] = e
        d = os.path.join(VERIF, 'known')          # per-property staging files known/CXX.json (same format), merged
        if os.path.isdir(d):
            for f in sorted(os.listdir(d)):
                if f.endswith('.json'):
                    for e in json.load(open(os.path.join(d, f)))['findings']: _KF[e['id']] = e
    return {k: v for k, v in _KF.items() if pid is None or v['property'] == pid}

def fp_(t): return z3.fpBVToFP(t, FSORT[t.size()])
def region_ns(res):
    ns = {k: getattr(z3, k) for k in ('ULT', 'ULE', 'UGT', 'UGE', 'And', 'Or', 'Not', 'If', 'Extract', 'BitVecVal', 'fpIsNaN', 'fpIsInf', 'fpLT', 'fpGT',
                                       'fpLEQ', 'fpGEQ', 'fpEQ', 'fpAbs', 'fpIsZero', 'fpIsSubnormal', 'fpIsNegative', 'FPVal', 'Float32', 'Float64', 'BoolVal', 'LShR', 'RealVal', 'URem', 'SRem', 'RotateLeft', 'RotateRight', 'ZeroExt', 'SignExt', 'ToReal', 'ToInt')}
    for i, terms in enumerate(res.ins):
        ns['abcdefgh'[i]] = terms
    def bitat(x, k):
        W = x.size(); kk = z3.ZeroExt(W - k.size(), k) if k.size() < W else z3.Extract(W - 1, 0, k)
        return z3.Extract(0, 0, z3.LShR(x, kk)) == 1
    ns['bitat'] = bitat
    def _ord(b):
        w = b.size(); mag = z3.ZeroExt(3, z3.Extract(w - 2, 0, b)); return z3.If(z3.Extract(w - 1, w - 1, b) == 1, -mag, mag)
    def ulpdist_le(x, y, m):
        d = _ord(x) - _ord(y); d = z3.If(d < 0, -d, d); return d <= z3.SignExt(x.size() + 2 - m.size(), m)
    ns['ulpdist_le'] = ulpdist_le
    ns['absdiff_eq'] = lambda x, y, e: z3.fpEQ(z3.fpAbs(z3.fpSub(z3.RNE(), fp_(x), fp_(y))), fp_(e))
    ns['fp'] = fp_
    ns['fpv'] = lambda x, w=32: z3.FPVal(x, FSORT[w])
    ns['sge'] = lambda x, y: x >= y
    ns['slt'] = lambda x, y: x < y
    return ns
def eval_region(expr, res, oname='', pid=None):
    if expr.startswith('@'):
        import importlib
        mod = importlib.import_module('props.' + pid.lower())
        m = re.search(r'(\d+)$', oname.replace('.outside-known', ''))
        return mod.REGIONS[expr[1:]](res, int(m.group(1)) if m else 0)
    ns = region_ns(res)
    m = re.search(r'(\d+)$', oname.replace('.outside-known', ''))
    ns['i'] = int(m.group(1)) if m else 0
    return eval(expr, {'__builtins__': {'int': int, 'len': len, 'range': range}}, ns)

# ----------------------------------------------------------------------------- replays
def ub_replay(unit, fname, vals, info, kind):
    """replay a UB/trap counterexample under -fsanitize=undefined -fno-sanitize-recover in a subprocess"""
    fn = unit.fns[fname]
    src = unit.source()
    main = ['#include <cstdio>', 'int main(){']
    args = []
    for i, ((c, n), row) in enumerate(zip(fn.ins, vals)):
        w = ct_bits(c)
        main.append('  static uint%d_t raw%d[%d] = {%s};' % (max(w, 8), i, n, ','.join('0x%xULL' % v for v in row)))
        args.append('(const %s*)raw%d' % (c, i))
    for i, (c, n) in enumerate(fn.outs):
        main.append('  static %s out%d[%d];' % (c, i, n)); args.append('out%d' % i)
    main.append('  w_%s(%s);' % (fname, ', '.join(args)))
    main.append('  std::puts("completed"); return 0; }')
    d = scratch(); base = os.path.join(d, 'ubr_%d_%d' % (os.getpid(), random.getrandbits(30)))
    with open(base + '.cpp', 'w') as f: f.write(src + '\n' + '\n'.join(main) + '\n')
    cmd = ['clang++-14', '-std=c++17', '-O0', '-w', '-ffp-contract=off', '-fsanitize=undefined,float-cast-overflow,integer-divide-by-zero', '-fno-sanitize=function,vptr',
           '-fno-sanitize-recover=all'] + unit.cflags + ['-I', REPO, base + '.cpp', '-o', base + '.exe']
    p = subprocess.run(cmd, capture_output=True, text=True)
    if p.returncode != 0:
        info['build_error'] = p.stderr[-1500:]; return 'replay-error', info
    p = subprocess.run([base + '.exe'], capture_output=True, text=True, timeout=60)
    info['sanitizer_exit'] = p.returncode; info['sanitizer_output'] = (p.stderr or '')[-800:]
    for e in ('.cpp', '.exe'):
        try: os.unlink(base + e)
        except OSError: pass
    if p.returncode != 0 or 'runtime error' in (p.stderr or ''): return 'reproduced', info
    return 'not-reproduced', info

class RGoal:
    """a goal in real mode that can also be evaluated numerically with a tolerance: kind in eq/le/lt/ge/gt"""
    def __init__(s, kind, l, r, guard=None, tol=None): s.kind = kind; s.l = l; s.r = r; s.guard = guard; s.tol = tol    # guard: optional Bool; the goal is guard -> atom; tol: optional relative tolerance of the numeric replay (default 2e-3 float / 1e-6 double)
    def term(s):
        l, r = s.l, s.r
        a = {'eq': l == r, 'le': l <= r, 'lt': l < r, 'ge': l >= r, 'gt': l > r}[s.kind]
        return a if s.guard is None else z3.Implies(s.guard, a)
def REq(l, r): return RGoal('eq', l, r)

def real_replay(unit, fname, vals, spec_fn, pre_fn, oname, pid):
    """numeric replay of a rounding-erased counterexample: run the real function natively on the nearest doubles/floats and
    evaluate the violated atom with a tolerance."""
    fn = unit.fns[fname]
    bits = []
    for (c, n), row in zip(fn.ins, vals):
        k, w, _ = CT[c]
        if k == 'f': bits.append([float_to_bits(float(v), w) for v in row])
        else: bits.append([int(v) for v in row])
    nat = unit.call_native(fname, bits)
    info = {'unit': unit.name, 'fn': fname, 'obligation': oname, 'property': pid,
            'inputs': [[str(v) for v in r] for r in vals], 'native_out': [[hex(v) for v in r] for r in nat]}
    if spec_fn is None: return 'no-replay', info
    cin = []
    for (c, n), row in zip(fn.ins, bits):
        k, w, _ = CT[c]
        cin.append([z3.RealVal(str(bits_to_fraction(v, w))) if k == 'f' else bv(v, w) for v in row])
    cout = concretize(fn.outs, nat, mode='real')
    for r_, (c, n) in zip(nat, fn.outs):
        if ct_kind(c) == 'f':
            for v in r_:
                d = bits_to_float(v, ct_bits(c))
                if d != d or d in (float('inf'), float('-inf')):
                    info['note'] = 'native result not finite'; return 'not-reproduced', info
    goals = spec_fn[0](cin, cout)
    if not isinstance(goals, (list, tuple)): goals = [('spec', goals)]
    g = dict(goals)[spec_fn[1]]
    tol = 2e-3 if any(ct_bits(c) == 32 and ct_kind(c) == 'f' for c, n in fn.ins + fn.outs) else 1e-6
    def num(t):
        if isinstance(t, (int, float, Fraction)): return float(t)        # goals written with bare Python numbers, e.g. REq(x, 0)
        return float(z3val_to_fraction(t))
    try:
        if isinstance(g, RGoal):
            if getattr(g, 'guard', None) is not None and z3.is_false(z3.simplify(g.guard)): info['note'] = 'guard false on the replayed values'; return 'not-reproduced', info
            l = num(g.l); r = num(g.r); sc = max(1.0, abs(l), abs(r)); info['lhs'] = l; info['rhs'] = r
            if getattr(g, 'tol', None) is not None: tol = g.tol; info['tol'] = tol
            bad = {'eq': abs(l - r) > tol * sc, 'le': l - r > tol * sc, 'lt': l - r >= -0.0 and l - r > tol * sc, 'ge': r - l > tol * sc, 'gt': r - l > tol * sc}[g.kind]
            return ('reproduced' if bad else 'not-reproduced'), info
        v = z3.simplify(g)
        if z3.is_false(v): return 'reproduced', info
        return 'not-reproduced', info
    except Exception as e:
        info['error'] = str(e)[:300]; return 'not-reproduced', info

def goal_term(g):
    return g.term() if isinstance(g, RGoal) else g
