#!/usr/bin/env python3-vt
"""Prototype: symbolic executor for the LLVM-14 textual IR subset clang emits for GLM kernels.
Produces z3 terms.  Floats are carried as bit-vectors (exact NaN payloads), with FP views on demand.
"""
import re, sys, itertools, time
import z3

# ----------------------------------------------------------------------------- types
class Ty:
    pass
class IntTy(Ty):
    def __init__(s, n): s.n = n
    def __repr__(s): return 'i%d' % s.n
class FloatTy(Ty):
    def __init__(s, n): s.n = n            # 32 / 64
    def __repr__(s): return {32: 'float', 64: 'double', 16: 'half'}[s.n]
class PtrTy(Ty):
    def __init__(s, to): s.to = to
    def __repr__(s): return '%r*' % (s.to,)
class VecTy(Ty):
    def __init__(s, n, el): s.n = n; s.el = el
    def __repr__(s): return '<%d x %r>' % (s.n, s.el)
class ArrTy(Ty):
    def __init__(s, n, el): s.n = n; s.el = el
    def __repr__(s): return '[%d x %r]' % (s.n, s.el)
class StructTy(Ty):
    def __init__(s, els, packed=False, name=None): s.els = els; s.packed = packed; s.name = name
    def __repr__(s): return s.name or '{%s}' % ','.join(map(repr, s.els))
class VoidTy(Ty):
    def __repr__(s): return 'void'
class FnTy(Ty):
    def __repr__(s): return 'fn'
class NamedTy(Ty):
    def __init__(s, name): s.name = name
    def __repr__(s): return s.name

TOK = re.compile(r'''\s*(?:
   (?P<str>c?"(?:[^"\\]|\\.)*")
 | (?P<lid>%"(?:[^"\\]|\\.)*"|%[-A-Za-z0-9_.$]+)
 | (?P<gid>@"(?:[^"\\]|\\.)*"|@[-A-Za-z0-9_.$]+)
 | (?P<meta>![-A-Za-z0-9_.$]*)
 | (?P<attr>\#\d+)
 | (?P<hex>0x[KLMHR]?[0-9A-Fa-f]+)
 | (?P<num>-?\d+\.\d*(?:[eE][-+]?\d+)?|-?\d+)
 | (?P<word>[A-Za-z_][A-Za-z0-9_.]*)
 | (?P<dots>\.\.\.)
 | (?P<p>[()\[\]{}<>,=*:])
)''', re.X)

def tokenize(s):
    out = []; i = 0; n = len(s)
    while i < n:
        if s[i] == ';': break
        m = TOK.match(s, i)
        if not m:
            if s[i:].strip() == '': break
            raise SyntaxError('tok: %r' % s[i:i+40])
        i = m.end()
        k = m.lastgroup
        out.append((k, m.group(k)))
    return out

class P:
    """token stream"""
    def __init__(s, toks, mod): s.t = toks; s.i = 0; s.mod = mod
    def peek(s, k=0): return s.t[s.i + k] if s.i + k < len(s.t) else ('eof', '')
    def next(s): x = s.peek(); s.i += 1; return x
    def accept(s, v):
        if s.peek()[1] == v: s.i += 1; return True
        return False
    def expect(s, v):
        x = s.next()
        if x[1] != v: raise SyntaxError('expected %r got %r in %r' % (v, x, s.t))
    def eof(s): return s.i >= len(s.t)

    def ty(s):
        k, v = s.next()
        if k == 'word':
            if v == 'void': t = VoidTy()
            elif v == 'float': t = FloatTy(32)
            elif v == 'double': t = FloatTy(64)
            elif v == 'half': t = FloatTy(16)
            elif v == 'ptr': t = PtrTy(IntTy(8))
            elif v == 'label': t = VoidTy()
            elif v == 'metadata': t = VoidTy()
            elif re.fullmatch(r'i\d+', v): t = IntTy(int(v[1:]))
            else: raise SyntaxError('type %r' % v)
        elif k == 'lid': t = NamedTy(v)
        elif v == '<':
            if s.peek()[1] == '{':
                s.next(); els = s.tylist('}'); s.expect('>'); t = StructTy(els, True)
            else:
                n = int(s.next()[1]); s.expect('x'); el = s.ty(); s.expect('>'); t = VecTy(n, el)
        elif v == '[':
            n = int(s.next()[1]); s.expect('x'); el = s.ty(); s.expect(']'); t = ArrTy(n, el)
        elif v == '{':
            t = StructTy(s.tylist('}'))
        else: raise SyntaxError('type tok %r' % v)
        while True:
            if s.peek()[1] == '*': s.next(); t = PtrTy(t)
            elif s.peek()[1] == '(':     # function type
                depth = 0
                while True:
                    x = s.next()[1]
                    if x == '(': depth += 1
                    elif x == ')':
                        depth -= 1
                        if depth == 0: break
                t = FnTy()
            else: break
        return t
    def tylist(s, close):
        els = []
        if s.accept(close): return els
        while True:
            els.append(s.ty())
            if s.accept(close): return els
            s.expect(',')

PARAM_ATTRS = set('noundef nonnull nocapture readonly writeonly readnone noalias zeroext signext inreg returned immarg nofree swiftself'.split())
def skip_attrs(p):
    while True:
        k, v = p.peek()
        if k == 'word' and v in PARAM_ATTRS: p.next()
        elif k == 'word' and v in ('align', 'dereferenceable', 'dereferenceable_or_null'):
            p.next()
            if p.accept('('): p.next(); p.expect(')')
            else: p.next()
        elif k == 'word' and v in ('sret', 'byval', 'byref', 'elementtype', 'inalloca', 'preallocated'):
            p.next(); p.expect('('); p.ty(); p.expect(')')
        else: break

class Const:   # parsed operand (lazy)
    def __init__(s, kind, ty, val): s.kind = kind; s.ty = ty; s.val = val
    def __repr__(s): return 'C(%s,%r,%r)' % (s.kind, s.ty, s.val)

def operand(p, ty):
    """parse a value of known type -> Const"""
    k, v = p.next()
    if k == 'lid': return Const('local', ty, v)
    if k == 'gid': return Const('global', ty, v)
    if k == 'num':
        if isinstance(ty, FloatTy): return Const('fdec', ty, v)
        return Const('int', ty, int(v))
    if k == 'hex': return Const('fhex', ty, v)
    if k == 'word':
        if v == 'true': return Const('int', ty, 1)
        if v == 'false': return Const('int', ty, 0)
        if v in ('undef', 'poison'): return Const('undef', ty, None)
        if v == 'null': return Const('null', ty, None)
        if v == 'zeroinitializer': return Const('zero', ty, None)
        if v in ('getelementptr', 'bitcast', 'inttoptr', 'ptrtoint', 'trunc', 'zext', 'sext', 'add', 'sub'):
            return constexpr(p, v, ty)
        raise SyntaxError('operand word %r' % v)
    if k == 'str': return Const('cstr', ty, v)
    if k == 'meta': return Const('undef', IntTy(1), None)
    if v == '<' or v == '[' or v == '{':
        packed = False
        if v == '<' and p.peek()[1] == '{': p.next(); packed = True; v = '{'
        close = {'<': '>', '[': ']', '{': '}'}[v]
        els = []
        if not p.accept(close):
            while True:
                t = p.ty(); els.append(operand(p, t))
                if p.accept(close): break
                p.expect(',')
        if packed: p.expect('>')
        return Const('agg', ty, els)
    raise SyntaxError('operand %r %r' % (k, v))

def constexpr(p, op, ty):
    if op == 'getelementptr':
        p.accept('inbounds'); p.expect('(')
        bt = p.ty(); p.expect(',')
        pt = p.ty(); base = operand(p, pt); idx = []
        while p.accept(','):
            p.accept('inrange'); it = p.ty(); idx.append(operand(p, it))
        p.expect(')')
        return Const('cgep', ty, (bt, base, idx))
    else:
        p.expect('('); st = p.ty(); x = operand(p, st); p.expect('to'); dt = p.ty(); p.expect(')')
        return Const('ccast', dt, (op, x))

class Instr:
    __slots__ = ('dst', 'op', 'ty', 'args', 'extra', 'line', 'align')
    def __init__(s, dst, op, ty=None, args=None, extra=None, line=''):
        s.dst = dst; s.op = op; s.ty = ty; s.args = args or []; s.extra = extra; s.line = line; s.align = None

class Block:
    def __init__(s, name): s.name = name; s.ins = []; s.succ = []
class Func:
    def __init__(s, name, ret, params): s.name = name; s.ret = ret; s.params = params; s.blocks = {}; s.order = []

BINOPS = set('add sub mul udiv sdiv urem srem shl lshr ashr and or xor fadd fsub fmul fdiv frem'.split())
CASTS = set('trunc zext sext fptrunc fpext fptoui fptosi uitofp sitofp ptrtoint inttoptr bitcast addrspacecast'.split())
FMF = set('nnan ninf nsz arcp contract afn reassoc fast'.split())

def strip_meta(toks):
    # drop trailing ", !meta !n" and ", align N" pieces and attribute groups
    out = []; i = 0
    while i < len(toks):
        k, v = toks[i]
        if v == ',' and i + 1 < len(toks) and toks[i+1][0] == 'meta':
            i += 2
            while i < len(toks) and toks[i][0] == 'meta': i += 1
            continue
        if v == ',' and i + 2 < len(toks) and toks[i+1] == ('word', 'align'):
            i += 3; continue
        if k == 'attr': i += 1; continue
        out.append(toks[i]); i += 1
    return out

class Module:
    def __init__(s, text):
        s.types = {}; s.globals = {}; s.funcs = {}; s.decls = set()
        s.parse(text)

    def resolve(s, t):
        while isinstance(t, NamedTy): t = s.types[t.name]
        return t
    # ---- layout (x86-64)
    def align(s, t):
        t = s.resolve(t)
        if isinstance(t, IntTy): return min(8, max(1, 1 << ((max(t.n, 8) + 7) // 8 - 1).bit_length())) if t.n <= 64 else 16
        if isinstance(t, FloatTy): return t.n // 8
        if isinstance(t, PtrTy): return 8
        if isinstance(t, VecTy):
            sz = s.size(t); a = 1
            while a < sz: a <<= 1
            return min(a, 64)
        if isinstance(t, ArrTy): return s.align(t.el)
        if isinstance(t, StructTy): return 1 if t.packed else max([s.align(e) for e in t.els] + [1])
        raise TypeError(t)
    def size(s, t):
        t = s.resolve(t)
        if isinstance(t, IntTy):
            b = (t.n + 7) // 8; a = s.align(t); return (b + a - 1) // a * a
        if isinstance(t, FloatTy): return t.n // 8
        if isinstance(t, PtrTy): return 8
        if isinstance(t, VecTy): return (t.n * s.bits(t.el) + 7) // 8
        if isinstance(t, ArrTy): return t.n * s.size(t.el)
        if isinstance(t, StructTy):
            off = 0
            for e in t.els:
                if not t.packed: a = s.align(e); off = (off + a - 1) // a * a
                off += s.size(e)
            a = s.align(t); return (off + a - 1) // a * a
        raise TypeError(t)
    def bits(s, t):
        t = s.resolve(t)
        if isinstance(t, (IntTy, FloatTy)): return t.n
        if isinstance(t, PtrTy): return 64
        return s.size(t) * 8
    def field_off(s, t, i):
        off = 0
        for j, e in enumerate(t.els):
            if not t.packed: a = s.align(e); off = (off + a - 1) // a * a
            if j == i: return off
            off += s.size(e)
        raise IndexError

    def parse(s, text):
        lines = text.split('\n'); i = 0; cur = None; blk = None
        while i < len(lines):
            ln = lines[i]; i += 1
            st = ln.strip()
            if not st or st.startswith(';') or st.startswith('source_filename') or st.startswith('target ') or st.startswith('attributes') or st.startswith('!') or st.startswith('$'):
                continue
            if cur is None:
                if st.startswith('%') and ' = type ' in st:
                    toks = tokenize(st); p = P(toks, s)
                    name = p.next()[1]; p.expect('='); p.expect('type')
                    if p.peek()[1] == 'opaque': s.types[name] = StructTy([], name=name)
                    else:
                        t = p.ty()
                        if isinstance(t, StructTy): t.name = name
                        s.types[name] = t
                elif st.startswith('@'):
                    s.parse_global(st)
                elif st.startswith('declare'):
                    m = re.search(r'@("[^"]*"|[-\w.$]+)\s*\(', st); s.decls.add('@' + m.group(1))
                elif st.startswith('define'):
                    cur = s.parse_define(st); blk = Block(cur.entry_name); cur.blocks[blk.name] = blk; cur.order.append(blk.name)
                continue
            if st == '}':
                s.funcs[cur.name] = cur; cur = None; continue
            m = re.match(r'^("[^"]*"|[-\w.$]+):', st)
            if m and not ln.startswith(' '):
                blk = Block('%' + m.group(1)); cur.blocks[blk.name] = blk; cur.order.append(blk.name); continue
            # switch spans multiple lines
            if st.startswith('switch') and st.endswith('['):
                while not lines[i].strip().startswith(']'):
                    st += ' ' + lines[i].strip(); i += 1
                st += ' ]'; i += 1
            blk.ins.append(s.parse_instr(st))

    def parse_global(s, st):
        toks = strip_meta(tokenize(st)); p = P(toks, s)
        name = p.next()[1]; p.expect('=')
        while p.peek()[0] == 'word' and p.peek()[1] not in ('global', 'constant'):
            p.next()
            if p.peek()[1] == '(':   # e.g. thread_local(...)
                while p.next()[1] != ')': pass
        kind = p.next()[1]
        t = p.ty()
        init = None
        if not p.eof() and p.peek()[1] != ',':
            try: init = operand(p, t)
            except SyntaxError: init = None
        s.globals[name] = (t, init, kind == 'constant')

    def parse_define(s, st):
        m = re.search(r'@("[^"]*"|[-\w.$]+)\s*\(', st)
        name = '@' + m.group(1)
        head = st[:m.start()]; rest = st[m.end():]
        toks = tokenize(head); p = P(toks, s); p.expect('define')
        while p.peek()[0] == 'word' and not re.fullmatch(r'i\d+|void|float|double|half|ptr', p.peek()[1]):
            w = p.next()[1]
            if w in ('dereferenceable', 'align') :
                if p.accept('('): p.next(); p.expect(')')
                else: p.next()
        ret = p.ty()
        # params
        depth = 1; j = 0
        while depth:
            c = rest[j]
            if c == '(': depth += 1
            elif c == ')': depth -= 1
            elif c == '"':
                j = rest.index('"', j + 1)
            j += 1
        ptoks = tokenize(rest[:j-1]); pp = P(ptoks, s); params = []
        n_unnamed = 0
        while not pp.eof():
            if pp.peek()[0] == 'dots': pp.next(); break
            t = pp.ty(); skip_attrs(pp)
            if pp.peek()[0] == 'lid': nm = pp.next()[1]
            else: nm = '%%%d' % len(params)
            params.append((t, nm))
            if not pp.accept(','): break
        f = Func(name, ret, params)
        # entry block implicit name: next number after unnamed params
        f.entry_name = '%%%d' % len([1 for t, nm in params if re.fullmatch(r'%\d+', nm)]) if all(re.fullmatch(r'%\d+', nm) for t, nm in params) else '%entry'
        return f

    def parse_instr(s, st):
        raw = tokenize(st); al = None
        for i_ in range(len(raw) - 2):
            if raw[i_][1] == ',' and raw[i_ + 1] == ('word', 'align'):
                try: al = int(raw[i_ + 2][1])
                except (ValueError, TypeError): pass
        toks = strip_meta(raw); p = P(toks, s)
        dst = None
        if p.peek()[0] == 'lid' and p.peek(1)[1] == '=':
            dst = p.next()[1]; p.next()
        op = p.next()[1]
        I = Instr(dst, op, line=st); I.align = al
        if op in ('tail', 'musttail', 'notail'):
            op = p.next()[1]; I.op = op
        if op in BINOPS:
            flags = set()
            while p.peek()[1] in ('nuw', 'nsw', 'exact') or p.peek()[1] in FMF: flags.add(p.next()[1])
            I.ty = p.ty(); a = operand(p, I.ty); p.expect(','); b = operand(p, I.ty)
            I.args = [a, b]; I.extra = flags
        elif op == 'fneg':
            while p.peek()[1] in FMF: p.next()
            I.ty = p.ty(); I.args = [operand(p, I.ty)]
        elif op in ('icmp', 'fcmp'):
            while p.peek()[1] in FMF: p.next()
            I.extra = p.next()[1]; I.ty = p.ty(); a = operand(p, I.ty); p.expect(','); b = operand(p, I.ty); I.args = [a, b]
        elif op in CASTS:
            st_ = p.ty(); a = operand(p, st_); p.expect('to'); I.ty = p.ty(); I.args = [a]; I.extra = st_
        elif op == 'select':
            while p.peek()[1] in FMF: p.next()
            ct = p.ty(); c = operand(p, ct); p.expect(','); I.ty = p.ty(); a = operand(p, I.ty); p.expect(','); t2 = p.ty(); b = operand(p, t2)
            I.args = [c, a, b]; I.extra = ct
        elif op == 'freeze':
            I.ty = p.ty(); I.args = [operand(p, I.ty)]
        elif op == 'phi':
            while p.peek()[1] in FMF: p.next()
            I.ty = p.ty(); inc = []
            while True:
                p.expect('['); v = operand(p, I.ty); p.expect(','); l = p.next()[1]; p.expect(']')
                inc.append((v, l))
                if not p.accept(','): break
            I.args = inc
        elif op == 'br':
            if p.peek()[1] == 'label':
                p.next(); I.args = [p.next()[1]]
            else:
                t = p.ty(); c = operand(p, t); p.expect(','); p.expect('label'); a = p.next()[1]; p.expect(','); p.expect('label'); b = p.next()[1]
                I.args = [c, a, b]
        elif op == 'switch':
            t = p.ty(); c = operand(p, t); p.expect(','); p.expect('label'); d = p.next()[1]; p.expect('[')
            cases = []
            while not p.accept(']'):
                ct = p.ty(); cv = operand(p, ct); p.expect(','); p.expect('label'); cases.append((cv, p.next()[1]))
            I.args = [c, d, cases]
        elif op == 'ret':
            I.ty = p.ty()
            if not isinstance(I.ty, VoidTy): I.args = [operand(p, I.ty)]
        elif op == 'unreachable':
            pass
        elif op == 'alloca':
            p.accept('inalloca'); I.ty = p.ty()
            n = None
            if p.accept(','):
                if p.peek()[1] != 'align' and p.peek()[1] != 'addrspace':
                    nt = p.ty(); n = operand(p, nt)
            I.args = [n]
        elif op == 'load':
            vol = p.accept('atomic'); vol = p.accept('volatile')
            I.ty = p.ty(); p.expect(','); pt = p.ty(); I.args = [operand(p, pt)]; I.extra = vol
        elif op == 'store':
            p.accept('atomic'); vol = p.accept('volatile')
            vt = p.ty(); v = operand(p, vt); p.expect(','); pt = p.ty(); ptr = operand(p, pt)
            I.ty = vt; I.args = [v, ptr]; I.extra = vol
        elif op == 'getelementptr':
            inb = p.accept('inbounds'); bt = p.ty(); p.expect(','); pt = p.ty(); base = operand(p, pt); idx = []
            while p.accept(','):
                it = p.ty(); idx.append(operand(p, it))
            I.ty = bt; I.args = [base, idx]; I.extra = inb
        elif op == 'extractvalue':
            at = p.ty(); a = operand(p, at); idx = []
            while p.accept(','): idx.append(int(p.next()[1]))
            I.ty = at; I.args = [a, idx]
        elif op == 'insertvalue':
            at = p.ty(); a = operand(p, at); p.expect(','); vt = p.ty(); v = operand(p, vt); idx = []
            while p.accept(','): idx.append(int(p.next()[1]))
            I.ty = at; I.args = [a, v, idx]
        elif op == 'extractelement':
            vt = p.ty(); v = operand(p, vt); p.expect(','); it = p.ty(); i = operand(p, it)
            I.ty = vt; I.args = [v, i]
        elif op == 'insertelement':
            vt = p.ty(); v = operand(p, vt); p.expect(','); et = p.ty(); e = operand(p, et); p.expect(','); it = p.ty(); i = operand(p, it)
            I.ty = vt; I.args = [v, e, i]
        elif op == 'shufflevector':
            vt = p.ty(); a = operand(p, vt); p.expect(','); vt2 = p.ty(); b = operand(p, vt2); p.expect(','); mt = p.ty(); m = operand(p, mt)
            I.ty = vt; I.args = [a, b, m]
        elif op == 'call':
            while p.peek()[1] in FMF or p.peek()[1] in ('fastcc', 'ccc') or p.peek()[1] in PARAM_ATTRS: p.next()
            skip_attrs(p)
            I.ty = p.ty()
            callee = p.next()
            p.expect('('); args = []
            if not p.accept(')'):
                while True:
                    at = p.ty(); skip_attrs(p); args.append(operand(p, at));
                    if p.accept(')'): break
                    p.expect(',')
            I.args = args; I.extra = callee[1]
        else:
            raise SyntaxError('unsupported instr: ' + st)
        return I

# ============================================================================= executor
RNE = z3.RNE(); RTZ = z3.RTZ(); RNA = z3.RNA(); RTP = z3.RTP(); RTN = z3.RTN()
FSORT = {32: z3.Float32(), 64: z3.Float64(), 16: z3.Float16()}

class FV:
    """float value: bit-vector view and/or FP view (lazy)."""
    __slots__ = ('n', '_bits', '_fp')
    def __init__(s, n, bits=None, fp=None): s.n = n; s._bits = bits; s._fp = fp
    @property
    def fp(s):
        if s._fp is None:
            b = s._bits
            # bits that are the IEEE image of an FP term (a float that went through memory / a bitcast): reuse the FP term itself
            # (exact except for NaN payloads, which are not modelled)
            if z3.is_app_of(b, z3.Z3_OP_FPA_TO_IEEE_BV) and b.arg(0).sort() == FSORT[s.n]: s._fp = b.arg(0)
            else: s._fp = z3.fpBVToFP(b, FSORT[s.n])
        return s._fp
    @property
    def bits(s):
        if s._bits is None: s._bits = z3.fpToIEEEBV(s._fp)
        return s._bits
    def __repr__(s): return 'FV(%s)' % (s._fp if s._fp is not None else s._bits)

class RV:
    """float value in rounding-erased (real) semantics"""
    __slots__ = ('n', 'r')
    def __init__(s, n, r): s.n = n; s.r = r
    def __repr__(s): return 'RV(%s)' % s.r

class Ptr:
    __slots__ = ('obj', 'off')
    def __init__(s, obj, off): s.obj = obj; s.off = off
    def __repr__(s): return 'Ptr(%s+%s)' % (s.obj, s.off)

class MPtr:
    """guarded pointer alternatives [(cond, Ptr)], conditions mutually exclusive"""
    __slots__ = ('alts',)
    def __init__(s, alts): s.alts = alts
    def __repr__(s): return 'MPtr(%r)' % (s.alts,)
def _alts(p, c):
    if isinstance(p, MPtr): return [(And(c, ci), pi) for ci, pi in p.alts]
    return [(c, p)]

class Unsupported(Exception): pass
class CellPack:
    """raw memory cells moved by an integer load that spans opaque (real-mode float / pointer) cells; may only be stored again"""
    def __init__(s, cells): s.cells = list(cells)

def bv(v, n): return z3.BitVecVal(v, n)
def Or(xs):
    xs = [x for x in xs if not z3.is_false(x)]
    if not xs: return z3.BoolVal(False)
    if any(z3.is_true(x) for x in xs): return z3.BoolVal(True)
    return xs[0] if len(xs) == 1 else z3.Or(*xs)
def And(*xs):
    xs = [x for x in xs if not z3.is_true(x)]
    if any(z3.is_false(x) for x in xs): return z3.BoolVal(False)
    if not xs: return z3.BoolVal(True)
    return xs[0] if len(xs) == 1 else z3.And(*xs)
def Not(x):
    if z3.is_true(x): return z3.BoolVal(False)
    if z3.is_false(x): return z3.BoolVal(True)
    return z3.Not(x)
def b2c(x):  # i1 bitvec -> Bool
    return x == bv(1, 1)
def c2b(c): return z3.If(c, bv(1, 1), bv(0, 1))

class Mem:
    """persistent byte memory; cell = (term, byteindex) | None"""
    def __init__(s, objs=None): s.objs = objs if objs is not None else {}
    def copy(s): return Mem(dict(s.objs))
    def new(s, oid, size, init=None):
        s.objs[oid] = tuple(init) if init is not None else (None,) * size
    def write(s, oid, off, cells):
        o = s.objs[oid]
        if off < 0 or off + len(cells) > len(o): raise Unsupported('oob store %s+%d len %d size %d' % (oid, off, len(cells), len(o)))
        s.objs[oid] = o[:off] + tuple(cells) + o[off + len(cells):]
    def read(s, oid, off, n):
        o = s.objs[oid]
        if off < 0 or off + n > len(o): raise Unsupported('oob load %s+%d len %d size %d' % (oid, off, n, len(o)))
        return o[off:off + n]

def cell_term(c):
    t, k = c
    if t.size() == 8 and k == 0: return t
    return z3.Extract(8 * k + 7, 8 * k, t)
def cells_to_bv(cells, fresh):
    n = len(cells)
    if any(c is None for c in cells):
        cells = [c if c is not None else (fresh(8), 0) for c in cells]
    t0, k0 = cells[0]
    if all(c[0] is t0 or c[0].eq(t0) for c in cells) and all(cells[i][1] == k0 + i for i in range(n)):
        if k0 == 0 and t0.size() == 8 * n: return t0
        return z3.Extract(8 * (k0 + n) - 1, 8 * k0, t0)
    # group runs
    parts = []; i = 0
    while i < n:
        t, k = cells[i]; j = i + 1
        while j < n and (cells[j][0] is t or cells[j][0].eq(t)) and cells[j][1] == k + (j - i): j += 1
        parts.append(t if (k == 0 and t.size() == 8 * (j - i)) else z3.Extract(8 * (k + j - i) - 1, 8 * k, t))
        i = j
    parts.reverse()
    return z3.Concat(*parts) if len(parts) > 1 else parts[0]
def bv_to_cells(t):
    assert t.size() % 8 == 0, t.size()
    return [(t, k) for k in range(t.size() // 8)]
def cell_eq(a, b):
    if a is None or b is None: return a is b
    if isinstance(a[0], tuple) or isinstance(b[0], tuple):     # opaque cells (('real'|'ptr', value), byte): equal only when they carry the very same value object
        return a[1] == b[1] and isinstance(a[0], tuple) and isinstance(b[0], tuple) and (a[0] is b[0] or (a[0][0] == b[0][0] and a[0][1] is b[0][1]))
    return a[1] == b[1] and (a[0] is b[0] or a[0].eq(b[0]))

class Exec:
    def __init__(s, mod, fmode='fp', unwind=16, libm=None):
        s.objalign = {}; s.check_align = False
        s.mod = mod; s.fmode = fmode; s.unwind = unwind
        s.nfresh = 0; s.nobj = 0
        s.obligations = []     # (kind, cond, descr): cond must be UNSAT (unwinding, UB, traps)
        s.axioms = []          # side constraints introduced by models (sqrt in real mode, libm contracts)
        s.ufs = {}
        s.libm = libm or {}
        s.depth = 0
        s.stats = {'instrs': 0, 'calls': 0}
        s.track_poison = False
        s.cur_cond = z3.BoolVal(True)
    def fresh(s, n, pfx='u'):
        s.nfresh += 1; return z3.BitVec('%s!%d' % (pfx, s.nfresh), n)
    def fresh_real(s, pfx='r'):
        s.nfresh += 1; return z3.Real('%s!%d' % (pfx, s.nfresh))
    def check_alignment(s, p, n, what):
        """opt-in (s.check_align): an access the IR marks 'align n' (clang derives n from the static type, e.g. 16 for *(__m128i*)) on an object that is only
        guaranteed a smaller alignment, or at an offset that is not a multiple of n, is what -fsanitize=alignment reports"""
        if not getattr(s, 'check_align', False) or not n or n <= 1 or not isinstance(p, Ptr) or not isinstance(p.off, int): return
        a = s.objalign.get(p.obj)
        if a is None: return
        if a % n != 0 or p.off % n != 0:
            s.oblige('misaligned', z3.BoolVal(True), '%s with align %d of %s+%d (object alignment %d)' % (what, n, p.obj, p.off, a))
    def newobj(s, mem, size, name='o', init=None):
        s.nobj += 1; oid = '%s%d' % (name, s.nobj); mem.new(oid, size, init); return oid

    # ---------------------------------------------------------------- value <-> bits
    def to_bits(s, v, ty):
        ty = s.mod.resolve(ty)
        if isinstance(ty, IntTy):
            return v
        if isinstance(ty, FloatTy):
            if isinstance(v, RV): raise Unsupported('bits of real-mode float')
            return v.bits
        if isinstance(ty, PtrTy):
            raise Unsupported('pointer to bits')
        if isinstance(ty, VecTy):
            parts = [s.to_bits(x, ty.el) for x in v]
            parts.reverse(); return z3.Concat(*parts) if len(parts) > 1 else parts[0]
        raise Unsupported('to_bits %r' % ty)
    def from_bits(s, b, ty):
        ty = s.mod.resolve(ty)
        if isinstance(ty, IntTy): return b
        if isinstance(ty, FloatTy):
            if s.fmode == 'real':
                bb = z3.simplify(b)
                if z3.is_bv_value(bb):
                    import struct
                    d = struct.unpack('<f' if ty.n == 32 else '<d', bb.as_long().to_bytes(ty.n // 8, 'little'))[0]
                    return s.fconst(d, ty.n)
                raise Unsupported('float from bits in real mode')
            return FV(ty.n, bits=b)
        if isinstance(ty, VecTy):
            w = s.mod.bits(ty.el)
            return [s.from_bits(z3.simplify(z3.Extract(w * (i + 1) - 1, w * i, b)), ty.el) for i in range(ty.n)]
        raise Unsupported('from_bits %r' % ty)

    # ---------------------------------------------------------------- memory typed access
    def store(s, mem, p, v, ty):
        ty = s.mod.resolve(ty)
        if isinstance(p, MPtr):
            for c, pi in p.alts:
                if pi.obj == 'null': s.oblige('ub', c, 'store through null pointer'); continue
                try: old = s.load_quiet(mem, pi, ty)
                except Unsupported: old = None
                s.store(mem, pi, v if old is None else s.ite(c, v, old), ty)
            return
        if not isinstance(p.off, int): return s.store_sym(mem, p, v, ty)
        if isinstance(ty, (StructTy, ArrTy)):
            for i, (et, eo) in enumerate(s.agg_fields(ty)):
                s.store(mem, Ptr(p.obj, p.off + eo), v[i], et)
            return
        if isinstance(ty, VecTy):
            es = s.mod.size(ty.el)
            if s.mod.bits(ty.el) % 8 == 0:
                for i in range(ty.n): s.store(mem, Ptr(p.obj, p.off + i * es), v[i], ty.el)
                return
        if isinstance(ty, PtrTy):
            mem.write(p.obj, p.off, [(('ptr', v), k) for k in range(8)]); return
        if isinstance(ty, FloatTy) and isinstance(v, RV):
            mem.write(p.obj, p.off, [(('real', v), k) for k in range(ty.n // 8)]); return
        if isinstance(v, CellPack):
            mem.write(p.obj, p.off, list(v.cells)); return
        b = s.to_bits(v, ty)
        if b.size() % 8: b = z3.ZeroExt(8 - b.size() % 8, b)
        mem.write(p.obj, p.off, bv_to_cells(b))
    def load_quiet(s, mem, p, ty):
        n = len(s.obligations)
        try: return s.load(mem, p, ty)
        finally: del s.obligations[n:]        # also when the load raises Unsupported (real-mode read of uninitialised bytes): the probe must leave no obligation behind
    def sym_offsets(s, mem, p, size, align):
        """candidate concrete offsets for a symbolic offset into one object"""
        osz = len(mem.objs[p.obj])
        step = align
        return [o for o in range(0, osz - size + 1, step)]
    def load_sym(s, mem, p, ty):
        size = s.mod.size(ty); cands = s.sym_offsets(mem, p, size, min(size, s.elem_align(ty)))
        if not cands: raise Unsupported('symbolic load: no candidate offsets')
        s.oblige('oob', Not(Or([p.off == bv(o, 64) for o in cands])), 'symbolic-offset load outside object/misaligned %s' % p.obj)
        v = s.load_quiet(mem, Ptr(p.obj, cands[-1]), ty) if False else s.load(mem, Ptr(p.obj, cands[-1]), ty)
        for o in reversed(cands[:-1]):
            v = s.ite(p.off == bv(o, 64), s.load(mem, Ptr(p.obj, o), ty), v)
        return v
    def store_sym(s, mem, p, v, ty):
        size = s.mod.size(ty); cands = s.sym_offsets(mem, p, size, min(size, s.elem_align(ty)))
        s.oblige('oob', Not(Or([p.off == bv(o, 64) for o in cands])), 'symbolic-offset store outside object/misaligned %s' % p.obj)
        for o in cands:
            try: old = s.load_quiet(mem, Ptr(p.obj, o), ty)
            except Unsupported: old = None
            s.store(mem, Ptr(p.obj, o), v if old is None else s.ite(p.off == bv(o, 64), v, old), ty)
    def elem_align(s, ty):
        ty = s.mod.resolve(ty)
        if isinstance(ty, (VecTy, ArrTy)): return s.elem_align(ty.el)
        if isinstance(ty, StructTy): return min([s.elem_align(e) for e in ty.els] + [8])
        return max(1, s.mod.size(ty))
    def load(s, mem, p, ty):
        ty = s.mod.resolve(ty)
        if isinstance(p, MPtr):
            alts = [(c, pi) for c, pi in p.alts]
            v = None
            for c, pi in reversed(alts):
                if pi.obj == 'null': s.oblige('ub', c, 'load through null pointer'); continue
                x = s.load(mem, pi, ty)
                v = x if v is None else s.ite(c, x, v)
            if v is None: raise Unsupported('load through null only')
            return v
        if not isinstance(p.off, int): return s.load_sym(mem, p, ty)
        if isinstance(ty, (StructTy, ArrTy)):
            return [s.load(mem, Ptr(p.obj, p.off + eo), et) for et, eo in s.agg_fields(ty)]
        if isinstance(ty, VecTy) and s.mod.bits(ty.el) % 8 == 0:
            es = s.mod.size(ty.el)
            return [s.load(mem, Ptr(p.obj, p.off + i * es), ty.el) for i in range(ty.n)]
        n = (ty.n + 7) // 8 if isinstance(ty, IntTy) else s.mod.size(ty)     # store size: an i24/i48 load touches 3/6 bytes, not its 4/8-byte alloc size
        cells = mem.read(p.obj, p.off, n)
        c0 = cells[0]
        if c0 is not None and isinstance(c0[0], tuple):
            kind, val = c0[0]
            if all(c is not None and isinstance(c[0], tuple) and c[0][1] is val and c[1] == i for i, c in enumerate(cells)):
                return val
            if isinstance(ty, IntTy) and ty.n % 8 == 0: return CellPack(cells)      # integer load/store pair used as a memcpy of opaque cells
            raise Unsupported('partial load of opaque %s' % kind)
        if any(c is not None and isinstance(c[0], tuple) for c in cells):
            if isinstance(ty, IntTy) and ty.n % 8 == 0: return CellPack(cells)
            raise Unsupported('mixed opaque load')
        if any(c is None for c in cells):
            s.obligations.append(('uninit-load', s.cur_cond, 'load of uninitialised bytes %s+%d' % (p.obj, p.off)))
        b = cells_to_bv(cells, s.fresh)
        w = s.mod.bits(ty)
        if b.size() > w: b = z3.Extract(w - 1, 0, b)
        return s.from_bits(b, ty)
    def agg_fields(s, ty):
        if isinstance(ty, ArrTy):
            es = s.mod.size(ty.el); return [(ty.el, i * es) for i in range(ty.n)]
        return [(e, s.mod.field_off(ty, i)) for i, e in enumerate(ty.els)]

    # ---------------------------------------------------------------- merging
    def ite(s, c, a, b, ty=None):
        if a is b: return a
        if isinstance(a, list): return [s.ite(c, x, y) for x, y in zip(a, b)]
        if isinstance(a, FV):
            if a._bits is not None and b._bits is not None:
                if a._bits.eq(b._bits): return a
                return FV(a.n, bits=z3.If(c, a._bits, b._bits))
            if a.fp.eq(b.fp): return a
            return FV(a.n, fp=z3.If(c, a.fp, b.fp))
        if isinstance(a, RV):
            return a if a.r.eq(b.r) else RV(a.n, z3.If(c, a.r, b.r))
        if isinstance(a, Ptr):
            if isinstance(b, Ptr) and a.obj == b.obj:
                if a.off == b.off: return a
                ao = a.off if not isinstance(a.off, int) else bv(a.off, 64)
                bo = b.off if not isinstance(b.off, int) else bv(b.off, 64)
                return Ptr(a.obj, z3.If(c, ao, bo))
            return MPtr(_alts(a, c) + _alts(b, Not(c)))
        if isinstance(a, MPtr) or isinstance(b, MPtr):
            return MPtr(_alts(a, c) + _alts(b, Not(c)))
        if a is None or b is None: return a if b is None else b
        if a.eq(b): return a
        return z3.If(c, a, b)
    def merge_mem(s, items):
        """items: [(cond, mem)] -> mem"""
        if len(items) == 1: return items[0][1].copy()
        res = items[-1][1].copy()
        for c, m in reversed(items[:-1]):
            for oid in set(res.objs) | set(m.objs):
                a = m.objs.get(oid); b = res.objs.get(oid)
                if a is None: continue
                if b is None: res.objs[oid] = a; continue
                if a is b: continue
                out = list(b); ch = False
                for i in range(len(a)):
                    if not cell_eq(a[i], b[i]):
                        if a[i] is None: out[i] = b[i]
                        elif b[i] is None: out[i] = a[i]
                        elif isinstance(a[i][0], tuple) or isinstance(b[i][0], tuple):
                            va = a[i][0]; vb = b[i][0]
                            if isinstance(va, tuple) and isinstance(vb, tuple) and a[i][1] == b[i][1]:
                                # merge opaque values once (at byte 0), reuse
                                key = (id(va[1]), id(vb[1]))
                                cache = s.__dict__.setdefault('_opq', {})
                                if key not in cache: cache[key] = (va[0], s.ite(c, va[1], vb[1]))
                                out[i] = (cache[key], a[i][1])
                            elif not s._merge_real_with_const_bytes(c, a, b, i, out): raise Unsupported('merge opaque/bytes')
                        else:
                            out[i] = (z3.If(c, cell_term(a[i]), cell_term(b[i])), 0)
                        ch = True
                if ch: res.objs[oid] = tuple(out)
        return res

    def _merge_real_with_const_bytes(s, c, a, b, i, out):
        """merge_mem helper: on one path the bytes hold a real-mode float (opaque cell), on the other the bit pattern of a float constant
        (e.g. an identity matrix written by memset/integer stores): the constant is converted to its real value.  c selects side a."""
        oa = isinstance(a[i][0], tuple)
        op, by = (a, b) if oa else (b, a)
        kind, val = op[i][0]; k = op[i][1]
        if kind != 'real' or not isinstance(val, RV): return False
        n = val.n // 8; st = i - k
        if st < 0 or st + n > len(op): return False
        if not all(op[st + j] is not None and isinstance(op[st + j][0], tuple) and op[st + j][0][1] is val and op[st + j][1] == j for j in range(n)): return False
        cells = by[st:st + n]
        if any(x is None or isinstance(x[0], tuple) for x in cells): return False
        cache = s.__dict__.setdefault('_opq_cb', {})
        key = (id(val), tuple((x[0].get_id(), x[1]) for x in cells), oa, c.get_id())
        if key not in cache:
            bb = z3.simplify(cells_to_bv(list(cells), s.fresh))
            if not z3.is_bv_value(bb): return False
            import struct
            d = struct.unpack('<f' if val.n == 32 else '<d', bb.as_long().to_bytes(n, 'little'))[0]
            cv = s.fconst(d, val.n)
            cache[key] = (('real', s.ite(c, val, cv) if oa else s.ite(c, cv, val)), val)
        out[i] = (cache[key][0], k)
        return True

    # ---------------------------------------------------------------- constants
    def const(s, c, env, mem):
        ty = s.mod.resolve(c.ty); k = c.kind
        if k == 'local':
            try: return env[c.val]
            except KeyError: raise Unsupported('undefined local %s' % c.val)
        if k == 'int': return bv(c.val, ty.n)
        if k in ('fdec', 'fhex'):
            if k == 'fhex':
                import struct
                h = c.val[2:]
                if h[0] in 'KLMHR': raise Unsupported('long double const')
                d = struct.unpack('>d', bytes.fromhex(h.rjust(16, '0')))[0]
            else: d = float(c.val)
            return s.fconst(d, ty.n)
        if k == 'undef':
            return s.zero_or_fresh(ty, True)
        if k == 'zero': return s.zero_or_fresh(ty, False)
        if k == 'null': return Ptr('null', 0)
        if k == 'agg':
            return [s.const(e, env, mem) for e in c.val]
        if k == 'global':
            return Ptr(s.global_obj(c.val, mem), 0)
        if k == 'cgep':
            bt, base, idx = c.val
            return s.gep(s.const(base, env, mem), bt, [s.const(i, env, mem) for i in idx])
        if k == 'ccast':
            op, x = c.val; v = s.const(x, env, mem)
            if op == 'bitcast': return v
        if k == 'cstr':         # c"..." initialiser of a string global (assert messages): bytes with \XX escapes
            t = c.val; t = t[t.index('"') + 1:t.rindex('"')]; out = []; i = 0
            while i < len(t):
                if t[i] == '\\': out.append(int(t[i + 1:i + 3], 16)); i += 3
                else: out.append(ord(t[i]) & 255); i += 1
            return [bv(b, 8) for b in out]
        raise Unsupported('const %r' % c)
    def fconst(s, d, n):
        if s.fmode == 'real':
            from fractions import Fraction
            if d != d or d in (float('inf'), float('-inf')):
                if getattr(s, 'real_nonfinite', None) == 'oblige':      # (additive opt-in, C13) the constant becomes an arbitrary real and a side obligation says the block evaluating it is unreachable
                    s.oblige('domain', z3.BoolVal(True), 'non-finite constant (inf/NaN) evaluated in rounding-erased execution'); return RV(n, s.fresh_real('nonfinite'))
                raise Unsupported('non-finite const in real mode')
            if n == 32:
                import struct; d = struct.unpack('f', struct.pack('f', d))[0]
            rc = getattr(s, 'real_consts', None)      # optional {(bits, literal value): symbolic real}, e.g. pi literals (engine/realtrig.py:map_pi_literals)
            if rc and (n, d) in rc: return RV(n, rc[(n, d)])
            fr = Fraction(d); return RV(n, z3.RealVal(str(fr)))
        return FV(n, fp=z3.FPVal(d, FSORT[n]))
    def zero_or_fresh(s, ty, fresh):
        ty = s.mod.resolve(ty)
        if isinstance(ty, IntTy): return s.fresh(ty.n, 'undef') if fresh else bv(0, ty.n)
        if isinstance(ty, FloatTy):
            if s.fmode == 'real': return RV(ty.n, s.fresh_real('undef') if fresh else z3.RealVal(0))
            return FV(ty.n, bits=s.fresh(ty.n, 'undef') if fresh else bv(0, ty.n))
        if isinstance(ty, VecTy): return [s.zero_or_fresh(ty.el, fresh) for _ in range(ty.n)]
        if isinstance(ty, ArrTy): return [s.zero_or_fresh(ty.el, fresh) for _ in range(ty.n)]
        if isinstance(ty, StructTy): return [s.zero_or_fresh(e, fresh) for e in ty.els]
        if isinstance(ty, PtrTy): return Ptr('null', 0)
        raise Unsupported('zero %r' % ty)
    def global_obj(s, name, mem):
        oid = 'g' + name
        if oid not in mem.objs:
            if name not in s.mod.globals:
                if name in s.mod.funcs or name in s.mod.decls: mem.new(oid, 0); return oid
                raise Unsupported('unknown global ' + name)
            ty, init, isconst = s.mod.globals[name]
            mem.new(oid, s.mod.size(ty))
            if init is not None:
                s.cur_cond = z3.BoolVal(True)
                s.store(mem, Ptr(oid, 0), s.const(init, {}, mem), ty)
        return oid

    # ---------------------------------------------------------------- gep
    def gep(s, base, bt, idx):
        if isinstance(base, MPtr): return MPtr([(c, s.gep(pi, bt, idx)) for c, pi in base.alts])
        off = base.off; ty = bt
        first = True
        for i in idx:
            rty = s.mod.resolve(ty)
            if first:
                sz = s.mod.size(rty); first = False; nxt = ty
            elif isinstance(rty, StructTy):
                iv = z3.simplify(i); assert z3.is_bv_value(iv)
                k = iv.as_long(); off = s.addoff(off, s.mod.field_off(rty, k)); ty = rty.els[k]; continue
            elif isinstance(rty, (ArrTy, VecTy)):
                sz = s.mod.size(rty.el); nxt = rty.el
            else: raise Unsupported('gep into %r' % rty)
            iv = z3.simplify(i)
            if z3.is_bv_value(iv): off = s.addoff(off, iv.as_signed_long() * sz)
            else:
                i64 = z3.SignExt(64 - iv.size(), iv) if iv.size() < 64 else iv
                off = s.addoff(off, i64 * bv(sz, 64))
            ty = nxt
        return Ptr(base.obj, off)
    def addoff(s, a, b):
        if isinstance(a, int) and isinstance(b, int): return a + b
        if isinstance(a, int): a = bv(a, 64)
        if isinstance(b, int): b = bv(b, 64)
        return z3.simplify(a + b)

    # ---------------------------------------------------------------- scalar ops
    def lift(s, f, ty, *vs):
        ty = s.mod.resolve(ty)
        if isinstance(ty, VecTy): return [f(ty.el, *[v[i] for v in vs]) for i in range(ty.n)]
        return f(ty, *vs)
    def oblige(s, kind, cond, descr):
        c = And(s.cur_cond, cond)
        if not z3.is_false(c): s.obligations.append((kind, c, descr))
    def binop(s, op, flags, ty, a, b):
        ty = s.mod.resolve(ty)
        if isinstance(ty, FloatTy): return s.fbin(op, ty.n, a, b)
        n = ty.n
        if op == 'add':
            if s.track_poison and 'nsw' in flags: s.oblige('poison', Not(And(z3.BVAddNoOverflow(a, b, True), z3.BVAddNoUnderflow(a, b))), 'add nsw overflow')
            return a + b
        if op == 'sub': return a - b
        if op == 'mul':
            # byte splat: zext(i8 x) * 0x0101..01 is x repeated in every byte (clang packs u8vec4 / i8vec4 operands into one integer register); exact, no carries
            for x, y in ((a, b), (b, a)):
                if z3.is_bv_value(y) and n in (16, 32, 64) and y.as_long() == int('01' * (n // 8), 16):
                    xs = z3.simplify(x)
                    if z3.is_app(xs) and xs.decl().kind() == z3.Z3_OP_ZERO_EXT and xs.arg(0).size() == 8: return z3.Concat(*([xs.arg(0)] * (n // 8)))
                    if z3.is_app(xs) and xs.decl().kind() == z3.Z3_OP_CONCAT and xs.num_args() == 2 and z3.is_bv_value(xs.arg(0)) and xs.arg(0).as_long() == 0 and xs.arg(1).size() == 8: return z3.Concat(*([xs.arg(1)] * (n // 8)))
            return a * b
        if op in ('udiv', 'urem', 'sdiv', 'srem'):
            s.oblige('ub', b == bv(0, n), op + ' by zero')
            if op[0] == 's': s.oblige('ub', And(a == bv(1 << (n - 1), n), b == bv(-1, n)), op + ' INT_MIN/-1')
            return {'udiv': z3.UDiv, 'urem': z3.URem, 'sdiv': lambda x, y: x / y, 'srem': z3.SRem}[op](a, b)
        if op in ('shl', 'lshr', 'ashr'):
            if s.track_poison: s.oblige('poison', z3.UGE(b, bv(n, n)), op + ' amount >= width')
            return {'shl': lambda x, y: x << y, 'lshr': z3.LShR, 'ashr': lambda x, y: x >> y}[op](a, b)
        if op == 'and': return a & b
        if op == 'or': return a | b
        if op == 'xor': return a ^ b
        raise Unsupported(op)
    def fbin(s, op, n, a, b):
        if s.fmode == 'real':
            if op == 'fadd': return RV(n, a.r + b.r)
            if op == 'fsub': return RV(n, a.r - b.r)
            if op == 'fmul': return RV(n, a.r * b.r)
            if op == 'fdiv':
                s.oblige('domain', b.r == 0, 'real-mode division by zero'); return RV(n, a.r / b.r)
            raise Unsupported(op + ' real')
        f = {'fadd': z3.fpAdd, 'fsub': z3.fpSub, 'fmul': z3.fpMul, 'fdiv': z3.fpDiv}.get(op)
        if f:
            x, y = a.fp, b.fp
            if op in ('fadd', 'fmul') and x.get_id() > y.get_id(): x, y = y, x     # IEEE add/mul are commutative (NaN payloads are not modelled): canonical operand order
            return FV(n, fp=f(RNE, x, y))
        if op == 'frem': return FV(n, fp=s.fmod_model(a.fp, b.fp))
        raise Unsupported(op)
    def icmp(s, pred, ty, a, b):
        ty = s.mod.resolve(ty)
        if isinstance(ty, PtrTy):
            if a.obj == b.obj and isinstance(a.off, int) and isinstance(b.off, int):
                r = {'eq': a.off == b.off, 'ne': a.off != b.off}.get(pred)
                if r is not None: return bv(int(r), 1)
            if 'null' in (a.obj, b.obj) and pred in ('eq', 'ne'): return bv(int((a.obj == b.obj) == (pred == 'eq')), 1)
            raise Unsupported('ptr icmp')
        f = {'eq': lambda x, y: x == y, 'ne': lambda x, y: x != y, 'ugt': z3.UGT, 'uge': z3.UGE, 'ult': z3.ULT, 'ule': z3.ULE,
             'sgt': lambda x, y: x > y, 'sge': lambda x, y: x >= y, 'slt': lambda x, y: x < y, 'sle': lambda x, y: x <= y}[pred]
        return c2b(f(a, b))
    def fcmp(s, pred, ty, a, b):
        if pred == 'true': return bv(1, 1)
        if pred == 'false': return bv(0, 1)
        if s.fmode == 'real':
            x, y = a.r, b.r; p = pred[1:] if pred not in ('ord', 'uno') else pred
            r = {'eq': x == y, 'ne': x != y, 'gt': x > y, 'ge': x >= y, 'lt': x < y, 'le': x <= y, 'ord': z3.BoolVal(True), 'uno': z3.BoolVal(False)}[p]
            return c2b(r)
        x, y = a.fp, b.fp
        if pred[1:] in ('gt', 'ge'): x, y = y, x; pred = pred[0] + {'gt': 'lt', 'ge': 'le'}[pred[1:]]      # canonical: a > b is b < a
        elif pred[1:] in ('eq', 'ne') or pred in ('ord', 'uno'):
            if x.get_id() > y.get_id(): x, y = y, x
        uno = z3.Or(z3.fpIsNaN(x), z3.fpIsNaN(y))
        if pred == 'ord': return c2b(z3.Not(uno))
        if pred == 'uno': return c2b(uno)
        base = {'eq': z3.fpEQ(x, y), 'gt': z3.fpGT(x, y), 'ge': z3.fpGEQ(x, y), 'lt': z3.fpLT(x, y), 'le': z3.fpLEQ(x, y),
                'ne': z3.And(z3.Not(uno), z3.Not(z3.fpEQ(x, y)))}[pred[1:]]
        return c2b(base if pred[0] == 'o' else z3.Or(uno, base))
    def cast(s, op, sty, dty, v):
        sty = s.mod.resolve(sty); dty = s.mod.resolve(dty)
        if op == 'bitcast':
            if isinstance(sty, PtrTy): return v
            if s.fmode == 'real' and (isinstance(sty, FloatTy) or isinstance(dty, FloatTy) or
                                      (isinstance(sty, VecTy) and isinstance(s.mod.resolve(sty.el), FloatTy)) or (isinstance(dty, VecTy) and isinstance(s.mod.resolve(dty.el), FloatTy))):
                if isinstance(sty, VecTy) and isinstance(dty, VecTy) and sty.n == dty.n: return v
                raise Unsupported('float bitcast in real mode')
            return s.from_bits(z3.simplify(s.to_bits(v, sty)), dty)
        if isinstance(dty, VecTy):
            return [s.cast(op, sty.el, dty.el, x) for x in v]
        if op == 'trunc': return z3.Extract(dty.n - 1, 0, v)
        if op == 'zext': return z3.ZeroExt(dty.n - sty.n, v)
        if op == 'sext': return z3.SignExt(dty.n - sty.n, v)
        if op in ('fpext', 'fptrunc'):
            if s.fmode == 'real': return RV(dty.n, v.r)
            return FV(dty.n, fp=z3.fpFPToFP(RNE, v.fp, FSORT[dty.n]))
        if op in ('sitofp', 'uitofp'):
            if s.fmode == 'real':
                return RV(dty.n, z3.ToReal(z3.BV2Int(v, is_signed=(op == 'sitofp'))))
            if op == 'sitofp': return FV(dty.n, fp=z3.fpSignedToFP(RNE, v, FSORT[dty.n]))
            return FV(dty.n, fp=z3.fpUnsignedToFP(RNE, v, FSORT[dty.n]))
        if op in ('fptosi', 'fptoui'):
            n = dty.n
            if s.fmode == 'real':
                # truncation toward zero of a real
                fl = z3.ToInt(v.r); tr = z3.If(v.r >= 0, fl, z3.If(z3.ToReal(fl) == v.r, fl, fl + 1))
                lo, hi = (-(1 << (n - 1)), (1 << (n - 1)) - 1) if op == 'fptosi' else (0, (1 << n) - 1)
                s.oblige('ub', z3.Or(tr < lo, tr > hi), op + ' out of range')
                return z3.Int2BV(tr, n)
            x = v.fp; srt = FSORT[sty.n]
            if op == 'fptosi':
                ex_lo = n <= (24 if sty.n == 32 else 53)      # -(2^(n-1))-1 is exactly representable in the source format (x in (-(2^(n-1))-1, -(2^(n-1))) truncates in range)
                lo = z3.FPVal(-(2.0 ** (n - 1)) - (1.0 if ex_lo else 0), srt); hi = z3.FPVal(2.0 ** (n - 1), srt)
                bad = z3.Or(z3.fpIsNaN(x), z3.Not(z3.And(z3.fpGT(x, lo) if ex_lo else z3.fpGEQ(x, z3.FPVal(-(2.0 ** (n - 1)), srt)), z3.fpLT(x, hi))))
                r = z3.fpToSBV(RTZ, x, z3.BitVecSort(n))
            else:
                hi = z3.FPVal(2.0 ** n, srt)
                bad = z3.Or(z3.fpIsNaN(x), z3.Not(z3.And(z3.fpGT(x, z3.FPVal(-1.0, srt)), z3.fpLT(x, hi))))
                r = z3.fpToUBV(RTZ, x, z3.BitVecSort(n))
            s.oblige('ub', bad, op + ' out of range (float-cast-overflow)')
            return r
        if op == 'ptrtoint':
            # address = fresh per-object base + offset (no layout assumptions between objects); enough for pointer differences / comparisons inside one object
            def p2i(p):
                base = bv(0, 64) if p.obj == 'null' else z3.BitVec('addr!%s' % p.obj, 64)
                a_ = s.objalign.get(p.obj)
                if p.obj != 'null' and a_ and a_ > 1 and (a_ & (a_ - 1)) == 0:      # the object's guaranteed alignment (alloca / wrapper array), for -fsanitize=alignment checks
                    ax = (base & bv(a_ - 1, 64)) == 0
                    if not any(ax.eq(x) for x in s.axioms): s.axioms.append(ax)
                return base + (bv(p.off, 64) if isinstance(p.off, int) else p.off)
            if isinstance(v, MPtr):
                r = p2i(v.alts[-1][1])
                for c, pi in reversed(v.alts[:-1]): r = z3.If(c, p2i(pi), r)
            else: r = p2i(v)
            r = z3.simplify(r)
            return r if dty.n == 64 else (z3.Extract(dty.n - 1, 0, r) if dty.n < 64 else z3.ZeroExt(dty.n - 64, r))
        if op == 'inttoptr': raise Unsupported(op)
        raise Unsupported(op)

    # ---------------------------------------------------------------- function execution
    def run(s, fname, args, mem=None, cond=None):
        """args: list of values; returns (retval, mem)"""
        f = s.mod.funcs[fname]
        mem = mem if mem is not None else Mem()
        cond = cond if cond is not None else z3.BoolVal(True)
        env = {nm: a for (t, nm), a in zip(f.params, args)}
        s.depth += 1
        if s.depth > 40: raise Unsupported('call depth')
        r = FuncRun(s, f, env, mem, cond).go()
        s.depth -= 1
        return r

class FuncRun:
    def __init__(s, ex, f, env, mem, cond):
        s.ex = ex; s.f = f; s.env = env; s.cond0 = cond; s.mem0 = mem
        s.pending = {b: [] for b in f.order}     # block -> [(cond, phivals, mem)]
        s.rets = []
        s.analyse()
    # ---- CFG analysis: successors, dominators, natural loops
    def analyse(s):
        f = s.f; succ = {}
        for bn in f.order:
            t = f.blocks[bn].ins[-1]
            if t.op == 'br': succ[bn] = [t.args[0]] if len(t.args) == 1 else [t.args[1], t.args[2]]
            elif t.op == 'switch': succ[bn] = [t.args[1]] + [l for _, l in t.args[2]]
            else: succ[bn] = []
        s.succ = succ
        entry = f.order[0]
        # RPO
        seen = set(); post = []
        def dfs(b):
            stack = [(b, iter(succ[b]))]; seen.add(b)
            while stack:
                n, it = stack[-1]
                for m in it:
                    if m not in seen: seen.add(m); stack.append((m, iter(succ[m]))); break
                else:
                    post.append(n); stack.pop()
        dfs(entry)
        rpo = post[::-1]; s.rpo = rpo; idx = {b: i for i, b in enumerate(rpo)}
        pred = {b: [] for b in rpo}
        for b in rpo:
            for m in succ[b]: pred[m].append(b)
        s.pred = pred
        # dominators
        dom = {b: set(rpo) for b in rpo}; dom[entry] = {entry}
        ch = True
        while ch:
            ch = False
            for b in rpo[1:]:
                ps = [dom[p] for p in pred[b]]
                nd = set.intersection(*ps) | {b} if ps else {b}
                if nd != dom[b]: dom[b] = nd; ch = True
        # natural loops
        loops = {}
        for b in rpo:
            for m in succ[b]:
                if m in dom[b]:     # back edge b->m
                    body = loops.setdefault(m, {m})
                    st = [b]
                    while st:
                        n = st.pop()
                        if n not in body:
                            body.add(n); st.extend(pred[n])
        for b in rpo:
            for m in succ[b]:
                if idx[m] <= idx[b] and m not in dom[b]: raise Unsupported('irreducible CFG')
        s.loops = loops; s.idx = idx
        # live-out names per loop: defined inside, used outside
        s.liveout = {}; s.inloops = {b: [] for b in rpo}
        def uses(I):
            out = []
            def walk(a):
                if isinstance(a, Const):
                    if a.kind == 'local': out.append(a.val)
                    elif a.kind == 'agg': [walk(x) for x in a.val]
                    elif a.kind == 'cgep': walk(a.val[1]); [walk(x) for x in a.val[2]]
                    elif a.kind == 'ccast': walk(a.val[1])
                elif isinstance(a, (list, tuple)): [walk(x) for x in a]
            walk(I.args); return out
        for h, body in loops.items():
            defs = {I.dst for b in body for I in f.blocks[b].ins if I.dst}
            used = set()
            for b in rpo:
                if b in body: continue
                for I in f.blocks[b].ins: used.update(u for u in uses(I) if u in defs)
            s.liveout[h] = used
            for b in body: s.inloops[b].append(h)

    def go(s):
        entry = s.f.order[0]
        s.pending[entry].append((s.cond0, {}, s.mem0))
        s.region(s.rpo, None)
        # merge returns
        ex = s.ex
        if not s.rets:
            # every path ends in a trap / unreachable (e.g. clang proved a sanitizer check always fails): the obligations already say so
            if getattr(ex, 'allow_noreturn', False) and ex.obligations: return None, s.mem0
            raise Unsupported('no return reached')
        val = s.rets[-1][1]
        for c, v, m in reversed(s.rets[:-1]):
            val = ex.ite(c, v, val)
        mem = ex.merge_mem([(c, m) for c, v, m in s.rets])
        return val, mem

    def region(s, blocks, cur_loop):
        """execute blocks (in RPO order); nested loops expanded recursively"""
        done = set()
        for b in blocks:
            if b in done: continue
            if b in s.loops and b != cur_loop:
                body = [x for x in s.rpo if x in s.loops[b]]
                done |= set(body)
                for it in range(s.ex.unwind):
                    if not s.pending[b]: break
                    s.loop_iter(body, b)
                if s.pending[b]:
                    c = Or([c for c, _, _ in s.pending[b]])
                    s.ex.obligations.append(('unwind', c, 'loop %s in %s exceeds unwind %d' % (b, s.f.name, s.ex.unwind)))
                    s.pending[b] = []
                continue
            s.block(b)
    def loop_iter(s, body, header):
        # one iteration: header then the rest (nested loops handled via region with cur_loop=header)
        s.block(header)
        s.region(body[1:], header)

    def block(s, bn):
        ex = s.ex; inc = s.pending[bn]; s.pending[bn] = []
        if not inc: return
        inc = [(z3.simplify(c), pv, m) for c, pv, m in inc]
        inc = [x for x in inc if not z3.is_false(x[0])]
        if not inc: return
        cond = Or([c for c, _, _ in inc])
        mem = ex.merge_mem([(c, m) for c, _, m in inc])
        blk = s.f.blocks[bn]; env = s.env
        ex.cur_cond = cond
        phis = {I.dst for I in blk.ins if I.op == 'phi'}
        extra = set().union(*[set(pv) for _, pv, _ in inc]) - phis
        for nm in extra:
            have = [(c, pv[nm]) for c, pv, _ in inc if nm in pv]
            v = have[-1][1]
            for c, x in reversed(have[:-1]): v = ex.ite(c, x, v)
            env[nm] = v
        for I in blk.ins:
            ex.stats['instrs'] += 1
            op = I.op
            if op == 'phi':
                v = inc[-1][1][I.dst]
                for c, pv, _ in reversed(inc[:-1]): v = ex.ite(c, pv[I.dst], v)
                env[I.dst] = v; continue
            if op == 'br' or op == 'switch':
                if op == 'br':
                    if len(I.args) == 1: edges = [(cond, I.args[0])]
                    else:
                        c = b2c(ex.const(I.args[0], env, mem)); c = z3.simplify(c)
                        edges = [(And(cond, c), I.args[1]), (And(cond, Not(c)), I.args[2])]
                else:
                    v = ex.const(I.args[0], env, mem); edges = []; rest = []
                    for cv, l in I.args[2]:
                        e = z3.simplify(v == ex.const(cv, env, mem)); edges.append((And(cond, e), l)); rest.append(Not(e))
                    edges.append((And(cond, *rest), I.args[1]))
                for c, tgt in edges:
                    if z3.is_false(c): continue
                    pv = {}
                    for J in s.f.blocks[tgt].ins:
                        if J.op != 'phi': break
                        for val, lab in J.args:
                            if lab == bn: pv[J.dst] = ex.const(val, env, mem); break
                    for h in s.inloops[bn]:
                        if tgt not in s.loops[h]:
                            for nm in s.liveout[h]:
                                if nm in env: pv[nm] = env[nm]
                    s.pending[tgt].append((c, pv, mem))
                return
            if op == 'ret':
                v = ex.const(I.args[0], env, mem) if I.args else None
                s.rets.append((cond, v, mem)); return
            if op == 'unreachable':
                ex.obligations.append(('unreachable', cond, 'unreachable executed in %s' % s.f.name)); return
            r = s.instr(I, env, mem)
            if I.dst is not None: env[I.dst] = r

    def instr(s, I, env, mem):
        ex = s.ex; op = I.op; C = lambda c: ex.const(c, env, mem)
        if op in BINOPS:
            a, b = C(I.args[0]), C(I.args[1])
            return ex.lift(lambda t, x, y: ex.binop(op, I.extra, t, x, y), I.ty, a, b)
        if op == 'fneg':
            a = C(I.args[0])
            def fn(t, x):
                if ex.fmode == 'real': return RV(x.n, -x.r)
                return FV(x.n, bits=x.bits ^ bv(1 << (x.n - 1), x.n)) if x._bits is not None else FV(x.n, fp=z3.fpNeg(x.fp))
            return ex.lift(fn, I.ty, a)
        if op == 'icmp':
            a, b = C(I.args[0]), C(I.args[1]); return ex.lift(lambda t, x, y: ex.icmp(I.extra, t, x, y), I.ty, a, b)
        if op == 'fcmp':
            a, b = C(I.args[0]), C(I.args[1]); return ex.lift(lambda t, x, y: ex.fcmp(I.extra, t, x, y), I.ty, a, b)
        if op in CASTS:
            return ex.cast(op, I.extra, I.ty, C(I.args[0]))
        if op == 'select':
            c, a, b = C(I.args[0]), C(I.args[1]), C(I.args[2])
            if isinstance(c, list): return [ex.ite(b2c(ci), x, y) for ci, x, y in zip(c, a, b)]
            cc = z3.simplify(b2c(c))
            if z3.is_true(cc): return a          # concrete condition (unrolled loop counter): no If(True, p, q) pointers / symbolic offsets
            if z3.is_false(cc): return b
            return ex.ite(cc, a, b)
        if op == 'freeze': return C(I.args[0])
        if op == 'alloca':
            oid = ex.newobj(mem, ex.mod.size(I.ty), 'a'); ex.objalign[oid] = getattr(I, 'align', None) or ex.mod.align(I.ty)
            return Ptr(oid, 0)
        if op == 'load':
            pp = C(I.args[0]); ex.check_alignment(pp, getattr(I, 'align', None), 'load')
            return ex.load(mem, pp, I.ty)
        if op == 'store':
            pp = C(I.args[1]); ex.check_alignment(pp, getattr(I, 'align', None), 'store')
            ex.store(mem, pp, C(I.args[0]), I.ty); return None
        if op == 'getelementptr':
            return ex.gep(C(I.args[0]), I.ty, [C(i) for i in I.args[1]])
        if op == 'extractvalue':
            v = C(I.args[0])
            for i in I.args[1]: v = v[i]
            return v
        if op == 'insertvalue':
            import copy
            a = copy.copy(C(I.args[0])); v = C(I.args[1]); idx = I.args[2]
            def ins(agg, idx):
                agg = list(agg)
                if len(idx) == 1: agg[idx[0]] = v
                else: agg[idx[0]] = ins(agg[idx[0]], idx[1:])
                return agg
            return ins(a, idx)
        if op == 'extractelement':
            v = C(I.args[0]); i = z3.simplify(C(I.args[1]))
            if z3.is_bv_value(i): return v[i.as_long()]
            r = v[-1]
            for k in range(len(v) - 2, -1, -1): r = ex.ite(i == bv(k, i.size()), v[k], r)
            return r
        if op == 'insertelement':
            v = list(C(I.args[0])); e = C(I.args[1]); i = z3.simplify(C(I.args[2]))
            if z3.is_bv_value(i): v[i.as_long()] = e; return v
            return [ex.ite(i == bv(k, i.size()), e, v[k]) for k in range(len(v))]
        if op == 'shufflevector':
            a = C(I.args[0]); b = C(I.args[1]); m = I.args[2]
            n = len(a)
            if m.kind == 'zero': idxs = [0] * ex.mod.resolve(m.ty).n
            else: idxs = [None if e.kind == 'undef' else e.val for e in m.val]
            both = list(a) + list(b)
            elt = ex.mod.resolve(I.ty).el
            return [both[i] if i is not None else ex.zero_or_fresh(elt, True) for i in idxs]
        if op == 'call':
            return s.call(I, env, mem)
        raise Unsupported('instr ' + op)

    def call(s, I, env, mem):
        ex = s.ex; name = I.extra
        if name in ('@__assert_fail', '@abort', '@llvm.ubsantrap', '@llvm.trap', '@__cxa_pure_virtual', '@_ZSt9terminatev'):
            ex.obligations.append(('trap', ex.cur_cond, 'call ' + name + (' ' + str(I.args[0].val)[:80] if I.args and I.args[0].kind in ('cgep', 'global') else ''))); return None
        args = [ex.const(a, env, mem) for a in I.args]
        ex.stats['calls'] += 1
        if name.startswith('%'):            # indirect call through a function pointer held in a register (unoptimised IR: functor arguments)
            pv = env.get(name)
            if isinstance(pv, Ptr) and isinstance(pv.obj, str) and pv.obj.startswith('g@') and pv.off == 0: name = pv.obj[1:]
            else: raise Unsupported('indirect call through %s = %r' % (name, pv))
        if name in ex.mod.funcs:
            saved = ex.cur_cond
            r, m2 = ex.run(name, args, mem.copy(), ex.cur_cond)
            ex.cur_cond = saved
            mem.objs = m2.objs
            return r
        import models
        return models.external(ex, name, I, args, mem)
