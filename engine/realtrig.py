"""Rounding-erased (mode 'real') model of the libm trigonometric functions.

Every call  f(args)  is Ackermannised: one real variable per (function, argument polynomial).  Only TRUE facts about the
real functions are attached (so `unsat` stays sound); a `sat` answer may be an artefact of a missing fact and is therefore
never reported without numeric replay.

Always instantiated when a variable is created (cheap, local):
  sin/cos(A)   : sin^2+cos^2 = 1, |sin|,|cos| <= 1; A == 0 -> (0, 1); parity against -A when the leading coefficient of A is
                 negative; shift by k*pi/2 when A contains the symbolic pi with a half-integer coefficient;
                 A = ..If(c,X,Y).. -> If(c, f(A[X]), f(A[Y]))   (the executor merges paths into If-terms)
  tan(A)       : tan*cos = sin
  acos(t)      : 0 <= a <= pi;  -1<=t<=1 -> cos(a) = t, sin(a) >= 0;  sign/end-point facts
  asin(t)      : -pi/2 <= a <= pi/2;  -1<=t<=1 -> sin(a) = t, cos(a) >= 0;  sign facts
  atan(t)      : -pi/2 < a < pi/2; cos(a) > 0; sin(a) = t*cos(a); sign facts
  atan2(y,x)   : -pi <= a <= pi; r >= 0, r^2 = x^2+y^2, r*cos(a) = x, r*sin(a) = y; (x,y) != 0 -> r > 0; quadrant facts
On request of a property module (hooks, all through the Exec object `res.ex`):
  trig_var(ex, fn, args)     fetch/create the variable of fn(args) (same table the executed code uses)
  real_pi(ex)                the symbolic constant pi (3.14159 < pi < 3.1416)
  trig_sum(ex, A, B)         adds sin(A+B), cos(A+B) addition formulas
  trig_double(ex, A)         = trig_sum(ex, A, A)
  map_pi_literals(ex)        float/double literals that are k*pi/4 (correctly rounded, or folded T(k)*T(pi)) denote k*pi/4
  ex.trig_domain = True      acos/asin outside [-1,1] becomes a 'domain' side obligation
  ex.trig_auto_sum = True    addition formulas are instantiated automatically for every multi-term argument
  ex.trig_congruence = False congruence axioms between syntactically different arguments (quadratically many) are not emitted
"""
import z3, struct
from fractions import Fraction

PI_NAME = 'pi!sym'

def real_pi(ex):
    syms = ex.__dict__.setdefault('trig_syms', {})
    if 'pi' not in syms:
        p = z3.Real(PI_NAME); syms['pi'] = p
        ex.axioms.append(z3.And(p > z3.RealVal('3.14159'), p < z3.RealVal('3.1416')))
    return syms['pi']

def _r32(x): return struct.unpack('<f', struct.pack('<f', x))[0]
def map_pi_literals(ex, quarters=range(-16, 17)):
    """register the float/double literals that GLM code (or clang's constant folder) produces for k*pi/4 as the symbolic k*pi/4"""
    import math
    m = ex.__dict__.setdefault('real_consts', {})
    p = real_pi(ex)
    pi64 = math.pi; pi32 = _r32(math.pi)
    for k in quarters:
        if k == 0: continue
        c = Fraction(k, 4); t = p * z3.RealVal(str(c))
        cf = float(c)
        for v in {cf * pi64, float(Fraction(pi64) * c)}: m.setdefault((64, v), t)
        for v in {_r32(cf * pi32), _r32(cf * pi64), _r32(float(Fraction(pi32) * c))}: m.setdefault((32, v), t)
#        m.setdefault((64, cf * pi32), t)       # static_cast<double>(float literal)
    return m

# ---------------------------------------------------------------------------------------------- polynomial normal form
def _num(t):
    if z3.is_rational_value(t): return Fraction(t.numerator_as_long(), t.denominator_as_long())
    if z3.is_int_value(t): return Fraction(t.as_long())
    return None

class _Poly:
    """sparse polynomial over opaque atoms: {monomial(tuple of atom keys, sorted, with repetition): Fraction}"""
    def __init__(s, terms=None, atoms=None): s.t = terms or {}; s.atoms = atoms or {}
    @staticmethod
    def const(c): return _Poly({(): Fraction(c)} if c else {})
    @staticmethod
    def atom(term):
        k = term.sexpr(); return _Poly({(k,): Fraction(1)}, {k: term})
    def add(s, o, sign=1):
        r = dict(s.t)
        for m, c in o.t.items():
            v = r.get(m, 0) + sign * c
            if v: r[m] = v
            else: r.pop(m, None)
        a = dict(s.atoms); a.update(o.atoms); return _Poly(r, a)
    def mul(s, o):
        r = {}
        for m1, c1 in s.t.items():
            for m2, c2 in o.t.items():
                m = tuple(sorted(m1 + m2)); v = r.get(m, 0) + c1 * c2
                if v: r[m] = v
                else: r.pop(m, None)
        a = dict(s.atoms); a.update(o.atoms); return _Poly(r, a)
    def scale(s, c): return _Poly({m: v * c for m, v in s.t.items()} if c else {}, s.atoms)
    def key(s): return ' + '.join('%s*%s' % (c, '.'.join(m)) for m, c in sorted(s.t.items()))
    def monos(s): return sorted(m for m in s.t if m != ())
    def term(s):
        parts = []
        for m, c in sorted(s.t.items()):
            f = None
            for k in m: f = s.atoms[k] if f is None else f * s.atoms[k]
            if f is None: parts.append(z3.RealVal(str(c)))
            elif c == 1: parts.append(f)
            else: parts.append(z3.RealVal(str(c)) * f)
        if not parts: return z3.RealVal(0)
        r = parts[0]
        for p in parts[1:]: r = r + p
        return r

def poly_of(t):
    c = _num(t)
    if c is not None: return _Poly.const(c)
    if z3.is_app(t):
        k = t.decl().kind(); ch = t.children()
        if k == z3.Z3_OP_ADD:
            r = _Poly()
            for x in ch: r = r.add(poly_of(x))
            return r
        if k == z3.Z3_OP_SUB:
            r = poly_of(ch[0])
            for x in ch[1:]: r = r.add(poly_of(x), -1)
            return r
        if k == z3.Z3_OP_UMINUS: return poly_of(ch[0]).scale(-1)
        if k == z3.Z3_OP_MUL:
            r = _Poly.const(1)
            for x in ch: r = r.mul(poly_of(x))
            return r
        if k == z3.Z3_OP_DIV:
            d = _num(z3.simplify(ch[1]))
            if d: return poly_of(ch[0]).scale(1 / d)
    return _Poly.atom(t)

def _find_ite(t, depth=0):
    """first If-subterm of real sort reachable through arithmetic"""
    if not z3.is_app(t) or depth > 12: return None
    k = t.decl().kind()
    if k == z3.Z3_OP_ITE: return t
    if k in (z3.Z3_OP_ADD, z3.Z3_OP_SUB, z3.Z3_OP_UMINUS, z3.Z3_OP_MUL, z3.Z3_OP_DIV):
        for c in t.children():
            r = _find_ite(c, depth + 1)
            if r is not None: return r
    return None

# ---------------------------------------------------------------------------------------------- the variable table
def trig_var(ex, fn, argt, _depth=0):
    """variable standing for fn(*argt); argt: tuple of z3 Real terms"""
    tab = ex.__dict__.setdefault('trig', {})
    argt = tuple(z3.simplify(a) for a in argt)
    key = (fn,) + tuple(a.sexpr() for a in argt)
    if key in tab: return tab[key][0]
    ptab = ex.__dict__.setdefault('trig_poly', {})
    polys = None
    if all(_find_ite(a) is None for a in argt):
        polys = [poly_of(a) for a in argt]
        pkey = (fn,) + tuple(p.key() for p in polys)
        if pkey in ptab:
            tab[key] = (ptab[pkey], argt); return ptab[pkey]
    v = ex.fresh_real(fn); tab[key] = (v, argt)
    if polys is not None: ptab[pkey] = v
    # congruence with variables whose argument is syntactically different but may be equal in value
    for k2, (v2, a2) in list(tab.items()) if (polys is not None and getattr(ex, 'trig_congruence', True)) else ():     # (If-arguments are defined by lifting, see _facts)
        if k2[0] == fn and k2 != key and len(a2) == len(argt) and v2 is not v and all(_find_ite(x) is None for x in a2):
            ex.axioms.append(z3.Implies(z3.And(*[p == q for p, q in zip(a2, argt)]), v2 == v))
    if _depth < 24: _facts(ex, fn, argt, polys, v, _depth + 1)
    return v

def _add(ex, ax):
    if not any(ax.eq(a) for a in ex.axioms[-40:]): ex.axioms.append(ax)

def _facts(ex, fn, argt, polys, v, d):
    R = z3.RealVal
    if fn in ('sin', 'cos', 'tan'):
        A = argt[0]
        it = _find_ite(A)
        if it is not None:          # f(..If(c,X,Y)..) = If(c, f(..X..), f(..Y..))
            c, X, Y = it.children()
            ex.axioms.append(v == z3.If(c, trig_var(ex, fn, (z3.substitute(A, (it, X)),), d), trig_var(ex, fn, (z3.substitute(A, (it, Y)),), d)))
            return
        p = polys[0]
        if fn == 'tan':
            ex.axioms.append(v * trig_var(ex, 'cos', (A,), d) == trig_var(ex, 'sin', (A,), d)); return
        other = trig_var(ex, 'cos' if fn == 'sin' else 'sin', (A,), d)
        sn, cs = (v, other) if fn == 'sin' else (other, v)
        if fn == 'sin':             # once per argument (the partner is created from the sin side or right here)
            _add(ex, sn * sn + cs * cs == 1)
            _add(ex, z3.And(sn >= -1, sn <= 1, cs >= -1, cs <= 1))
        else:
            _add(ex, sn * sn + cs * cs == 1)
        if fn == 'cos': return      # remaining facts are attached once, from the sin side
        if not p.t:
            ex.axioms.append(z3.And(sn == 0, cs == 1)); return
        pk = (real_pi(ex).sexpr(),) if 'trig_syms' in ex.__dict__ and 'pi' in ex.trig_syms else None
        if pk is not None and pk in p.t and (2 * p.t[pk]).denominator == 1 and len(p.t) >= 1:
            n = int(2 * p.t[pk]) % 4
            rest = _Poly({m: c for m, c in p.t.items() if m != pk}, p.atoms)
            rt = rest.term()
            s0 = trig_var(ex, 'sin', (rt,), d); c0 = trig_var(ex, 'cos', (rt,), d)
            ex.axioms.append(z3.And(sn == [s0, c0, -s0, -c0][n], cs == [c0, -s0, -c0, s0][n])); return
        ms = p.monos()
        lead = ms[0] if ms else ()
        if p.t[lead] < 0:
            nt = p.scale(-1).term()
            ex.axioms.append(z3.And(sn == -trig_var(ex, 'sin', (nt,), d), cs == trig_var(ex, 'cos', (nt,), d))); return
        if getattr(ex, 'trig_auto_sum', False) and len(p.t) >= 2:
            a = _Poly({lead: p.t[lead]}, p.atoms); b = _Poly({m: c for m, c in p.t.items() if m != lead}, p.atoms)
            trig_sum(ex, a.term(), b.term(), d)
        return
    if fn not in ('acos', 'asin', 'atan', 'atan2'): return
    pi = real_pi(ex)
    if fn == 'acos':
        t = argt[0]; sa = trig_var(ex, 'sin', (v,), d); ca = trig_var(ex, 'cos', (v,), d)
        ex.axioms.append(z3.And(v >= 0, v <= pi))
        ex.axioms.append(z3.Implies(z3.And(t >= -1, t <= 1), z3.And(ca == t, sa >= 0)))
        ex.axioms.append(z3.And(z3.Implies(t == 1, v == 0), z3.Implies(t == -1, v == pi), z3.Implies(t == 0, 2 * v == pi),
                                z3.Implies(z3.And(t > 0, t <= 1), 2 * v < pi), z3.Implies(z3.And(t < 0, t >= -1), 2 * v > pi),
                                z3.Implies(z3.And(t > -1, t < 1), z3.And(v > 0, v < pi, sa > 0))))
        if getattr(ex, 'trig_domain', False): ex.oblige('domain', z3.Or(t < -1, t > 1), 'acos outside [-1,1]')
    elif fn == 'asin':
        t = argt[0]; sa = trig_var(ex, 'sin', (v,), d); ca = trig_var(ex, 'cos', (v,), d)
        ex.axioms.append(z3.And(2 * v >= -pi, 2 * v <= pi))
        ex.axioms.append(z3.Implies(z3.And(t >= -1, t <= 1), z3.And(sa == t, ca >= 0)))
        ex.axioms.append(z3.And(z3.Implies(t == 0, v == 0), z3.Implies(z3.And(t > 0, t <= 1), v > 0), z3.Implies(z3.And(t < 0, t >= -1), v < 0),
                                z3.Implies(t == 1, 2 * v == pi), z3.Implies(t == -1, 2 * v == -pi),
                                z3.Implies(z3.And(t > -1, t < 1), z3.And(2 * v > -pi, 2 * v < pi, ca > 0))))
        if getattr(ex, 'trig_domain', False): ex.oblige('domain', z3.Or(t < -1, t > 1), 'asin outside [-1,1]')
    elif fn == 'atan':
        t = argt[0]; sa = trig_var(ex, 'sin', (v,), d); ca = trig_var(ex, 'cos', (v,), d)
        ex.axioms.append(z3.And(2 * v > -pi, 2 * v < pi, ca > 0, sa == t * ca))
        ex.axioms.append(z3.And(z3.Implies(t == 0, v == 0), z3.Implies(t > 0, v > 0), z3.Implies(t < 0, v < 0)))
    elif fn == 'atan2':
        y, x = argt; sa = trig_var(ex, 'sin', (v,), d); ca = trig_var(ex, 'cos', (v,), d)
        r = ex.fresh_real('hyp')
        ex.axioms.append(z3.And(v >= -pi, v <= pi, r >= 0, r * r == x * x + y * y, r * ca == x, r * sa == y))
        ex.axioms.append(z3.Implies(z3.Or(x != 0, y != 0), r > 0))
        ex.axioms.append(z3.And(z3.Implies(y > 0, z3.And(v > 0, v < pi)), z3.Implies(y < 0, z3.And(v < 0, v > -pi)),
                                z3.Implies(z3.And(y == 0, x > 0), v == 0), z3.Implies(z3.And(y == 0, x < 0), z3.Or(v == pi, v == -pi)),
                                z3.Implies(x > 0, z3.And(2 * v > -pi, 2 * v < pi)), z3.Implies(z3.And(x == 0, y > 0), 2 * v == pi),
                                z3.Implies(z3.And(x == 0, y < 0), 2 * v == -pi),
                                z3.Implies(z3.And(x < 0, y > 0), 2 * v > pi), z3.Implies(z3.And(x < 0, y < 0), 2 * v < -pi)))
        ex.__dict__.setdefault('trig_hyp', {})[v.sexpr()] = r

def trig_sum(ex, A, B, _d=0):
    """instantiate sin(A+B) = sinA cosB + cosA sinB and cos(A+B) = cosA cosB - sinA sinB on the table's variables"""
    sa = trig_var(ex, 'sin', (A,), _d); ca = trig_var(ex, 'cos', (A,), _d)
    sb = trig_var(ex, 'sin', (B,), _d); cb = trig_var(ex, 'cos', (B,), _d)
    sab = trig_var(ex, 'sin', (A + B,), _d); cab = trig_var(ex, 'cos', (A + B,), _d)
    _add(ex, sab == sa * cb + ca * sb); _add(ex, cab == ca * cb - sa * sb)
    return sab, cab
def trig_double(ex, A): return trig_sum(ex, A, A)

def call(ex, b, argt):
    """entry used by models.rcall for every transcendental in real mode"""
    v = trig_var(ex, b, argt)
    if b in ('sin', 'cos'):       # keep the partner and sin^2+cos^2=1 (created by _facts) available
        trig_var(ex, 'sin', argt); trig_var(ex, 'cos', argt)
    return v

def model_inputs_hook(m, res, vals):
    """replay support: the Ackermannised model fixes values of sin!k/cos!k but leaves the angle inputs arbitrary; for every real input variable x whose
    multiples c*x occur as a trig argument, replace its value by atan2(sin, cos)/c so that the native run sees the angles the model talks about"""
    import math
    ex = res.ex; tab = ex.__dict__.get('trig', {})
    def val(t):
        v = z3.simplify(m.eval(t, model_completion=True))
        if z3.is_rational_value(v): return v.numerator_as_long() / v.denominator_as_long()
        if z3.is_algebraic_value(v):
            a = v.approx(20); return a.numerator_as_long() / a.denominator_as_long()
        return None
    found = {}
    for key, (v, argt) in tab.items():
        if key[0] != 'sin' or len(argt) != 1 or _find_ite(argt[0]) is not None: continue
        p = poly_of(argt[0])
        if len(p.t) != 1: continue
        (mono, coef), = p.t.items()
        if len(mono) != 1: continue
        ckey = ('cos',) + key[1:]
        if ckey not in tab: continue
        sv, cv = val(v), val(tab[ckey][0])
        if sv is None or cv is None: continue
        found.setdefault(mono[0], math.atan2(sv, cv) / float(coef))
    if not found: return vals
    out = []
    for terms, row in zip(res.ins, vals):
        out.append([Fraction(found[t.sexpr()]) if (z3.is_real(t) and z3.is_const(t) and t.sexpr() in found) else x for t, x in zip(terms, row)])
    return out
